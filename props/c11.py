"""C11 — interpolated delays sample the sender's signal at step time minus delay.

Engine B on the `linear` / `linear_real_only` branches of TrainableDist.apply_delay (jaxpr contains jnp.interp = search + gather + affine
arithmetic) and on jax.grad through it; the piecewise-linear interpolant is written independently as an If-chain.
"""
import time
from fractions import Fraction

import numpy as np
import z3

from vlib.common import Ob


def _mk(W, rate, dmin, dmax, interp):
    import jax.numpy as jnp
    from rex.base import InputState, TrainableDist
    from vlib.fixtures import POutput

    dd = TrainableDist(alpha=jnp.float32(0.5), min=float(dmin), max=float(dmax), interp=interp)
    ext = dd.window(rate)
    n = W + ext
    ins = InputState.from_outputs(np.zeros(n, np.int32), np.zeros(n, np.float32), np.zeros(n, np.float32), POutput(y=np.zeros((n,), np.float32)), delay_dist=dd, is_data=True)
    return ins, ext, n


def PL(x, K, V):
    """piecewise-linear interpolant through (K_i, V_i) (K sorted), constant beyond the ends; z3 term"""
    n = len(K)
    cnt = z3.Sum([z3.If(k <= x, 1, 0) for k in K])  # number of knots <= x
    res = V[n - 1]
    for i0 in range(n - 2, -1, -1):
        dx = K[i0 + 1] - K[i0]
        seg = z3.If(dx == 0, V[i0], V[i0] + (x - K[i0]) / dx * (V[i0 + 1] - V[i0]))
        # segment i0 is used when clamp(cnt, 1, n-1) - 1 == i0
        cond = (cnt <= 1) if i0 == 0 else (cnt == i0 + 1)
        res = z3.If(cond, seg, res) if i0 < n - 2 else z3.If(cond, seg, seg if n == 2 else res)
    if n >= 2:
        # cnt >= n-1 -> last segment
        last = n - 2
        dx = K[last + 1] - K[last]
        seg_last = z3.If(dx == 0, V[last], V[last] + (x - K[last]) / dx * (V[last + 1] - V[last]))
        res = z3.If(cnt >= n - 1, seg_last, res)
    res = z3.If(x < K[0], V[0], res)
    res = z3.If(x > K[n - 1], V[n - 1], res)
    return res


def worker(cfg, tier):
    import jax
    import jax.numpy as jnp
    from props.c10 import _invariant
    from vlib import cg, jx, smt

    W, rate, dmin, dmax, interp = cfg["W"], cfg["rate"], cfg["min"], cfg["max"], cfg["interp"]
    ins, ext, n = _mk(W, rate, dmin, dmax, interp)
    it = jx.Interp()
    alg = it.alg
    f_lin = lambda i, t: i.delay_dist.apply_delay(rate, i, t)
    tr = jx.Traced(f_lin, ins, np.float32(0.0))
    flat = tr.sym_inputs(it, "in")
    inp, ts_start_sa = tr.in_pytree(flat)
    out = tr.run(it, flat)
    seq, ts_sent, ts_recv = inp.seq.flat(), inp.ts_sent.flat(), inp.ts_recv.flat()
    data = inp.data.y.flat()
    alpha, ts_start = inp.delay_dist.alpha.item(), ts_start_sa.item()
    lo = Fraction(float(np.float32(dmin)))
    span = Fraction(float(np.float32(float(dmax) - float(dmin))))
    d = lo + alpha * span
    inv = _invariant(alg, seq, ts_sent, ts_recv, ts_start, alpha, dmin, n, False)
    # strictly increasing send times among real entries; at most `ext` real entries unarrived under d (sender regularity, cf. C10/K2)
    for i in range(n - 1):
        inv.append(z3.Implies(z3.And(seq[i] >= 0, seq[i + 1] >= 0), ts_sent[i + 1] >= ts_sent[i] + Fraction(1, 10**6)))  # distinct send times (jnp.interp treats |dx| <= 1.4e-14 as a zero-width segment)
        inv.append(z3.Implies(z3.And(seq[i] < 0, seq[i + 1] >= 0), ts_sent[i + 1] + d >= Fraction(1, 10**6)))
    arrived = [z3.Or(seq[i] < 0, ts_sent[i] + d <= ts_start) for i in range(n)]
    m = z3.Sum([z3.If(a, 0, 1) for a in arrived])
    regular = m <= ext
    if interp == "linear":
        inv.append(z3.Or(seq[1] >= 0, n < 2) if n >= 2 else z3.BoolVal(True))  # at most one not-yet-filled entry (repeated default knots at t=0 otherwise)
        K = [z3.If(seq[i] < 0, ts_recv[i], ts_sent[i] + d) for i in range(n)]
    else:
        inv.append(seq[0] >= 0)  # real entries only: the -1e9 sentinel knot relies on float absorption, outside the real model
        K = [ts_sent[i] + d for i in range(n)]
    inv_any = list(inv)  # any sender: no bound on the number of unarrived entries
    inv.append(regular)
    obs = []
    tmo = 400 if tier == "quick" else 600
    heavy = W >= 2  # non-linear queries over a 2-entry window with 4+ knots: z3's nlsat time is erratic; decided when it answers, else dropped (stated)
    tmo_heavy = 30 if tier == "quick" else 60
    od = out.data.y.flat()
    # query times written independently: x_j = ts_start - (K[idx_max-1] - K[idx_min+j]) with idx_max = n - m
    goals_pl, goals_between, goals_newest = [], [], []
    for mm in range(0, ext + 1):
        idx_max = n - mm
        idx_min = idx_max - W
        for j in range(W):
            x = ts_start - (K[idx_max - 1] - K[idx_min + j])
            want = PL(x, K, data)
            goals_pl.append(z3.Implies(m == mm, od[j] == want))
            if j == W - 1:
                # sender time: the signal with knots at the send times evaluated at ts_start - d
                Ks = [z3.If(seq[i] < 0, ts_recv[i] - d, ts_sent[i]) for i in range(n)] if interp == "linear" else ts_sent
                goals_newest.append(z3.Implies(m == mm, od[j] == PL(ts_start - d, Ks, data)))
            lo_i, hi_i = idx_max - 1, min(idx_max, n - 1)
            vlo = z3.If(data[lo_i] <= data[hi_i], data[lo_i], data[hi_i])
            vhi = z3.If(data[lo_i] >= data[hi_i], data[lo_i], data[hi_i])
            if j == W - 1:
                goals_between.append(z3.Implies(m == mm, z3.And(od[j] >= vlo, od[j] <= vhi)))
    # irregular senders (more than ext entries unarrived; the slice start is clamped): the newest query time is still ts_start
    goals_newest_any = []
    Ks_ = [z3.If(seq[i] < 0, ts_recv[i] - d, ts_sent[i]) for i in range(n)] if interp == "linear" else ts_sent
    for mm in range(ext + 1, n + 1):
        goals_newest_any.append(z3.Implies(m == mm, od[W - 1] == PL(ts_start - d, Ks_, data)))
    verdict, secs, mdl_bad = "unsat", 0.0, None
    for gi in goals_newest_any:
        fa = smt.abstract_apps(inv_any + [gi])
        v, mdl, s = smt.check(fa[:-1], fa[-1], tmo_heavy if heavy else tmo)
        secs += s
        if v == "sat":
            verdict, mdl_bad = "sat", mdl
            break
        if v == "unknown":
            verdict = "unknown"
    o = Ob(f"{interp}: irregular sender (more than ext entries unarrived): newest entry == sender's piecewise-linear signal at ts_start - delay", verdict, secs, cfg,
           key="interp-newest-any", what=f"apply_delay({interp}): with fewer than `window` arrived entries the newest entry is not the signal at ts_start - delay", queries=len(goals_newest_any), optional=heavy)
    if verdict == "sat":
        o.replayed = _replay(cfg, mdl_bad, tr, flat, "newest-any")
    obs.append(o)
    for name, goal, key in [
        ("entry j == piecewise-linear signal through (arrival_i, value_i) at ts_start - (arrival[newest arrived] - arrival[idx_min + j])", goals_pl, "interp-pl"),
        ("newest entry == sender's piecewise-linear signal (knots at send times) evaluated at ts_start - delay", goals_newest, "interp-newest"),
        ("newest entry lies between the two neighbouring messages' values", goals_between, "interp-between"),
    ]:
        # one query per (number of unarrived entries, window position): small non-linear queries are decided quickly, one big conjunction is not
        verdict, secs, mdl_bad = "unsat", 0.0, None
        for gi in goal:
            fa = smt.abstract_apps(inv + [gi])
            v, mdl, s = smt.check(fa[:-1], fa[-1], tmo_heavy if heavy else tmo)
            secs += s
            if v == "sat":
                verdict, mdl_bad = "sat", mdl
                break
            if v == "unknown":
                verdict = "unknown"
        o = Ob(f"{interp}: {name}", verdict, secs, cfg, key=key, what=f"apply_delay({interp}) violates: {name}", queries=len(goal), optional=heavy)
        if verdict == "sat":
            o.replayed = _replay(cfg, mdl_bad, tr, flat, name)
        obs.append(o)
    # coincidence with zero-order hold when the delayed arrival coincides with a message
    ins_z, _, _ = _mk(W, rate, dmin, dmax, "zoh")
    trz = jx.Traced(lambda i, t: i.delay_dist.apply_delay(rate, i, t), ins_z, np.float32(0.0))
    outz = trz.run(it, flat)
    coincide = z3.Or(*[z3.And(seq[i] >= 0, ts_sent[i] + d == ts_start) for i in range(n)])
    v, mdl, s = smt.check(inv + [coincide], od[W - 1] == outz.data.y.flat()[W - 1], tmo)  # required for every window size
    o = Ob(f"{interp}: when ts_start - delay coincides with a message the newest entry equals the zero-order-hold result", v, s, cfg, key="interp-zoh",
           what="interpolated and zero-order-hold results differ when the delayed arrival coincides with a message")
    if v == "sat":
        o.replayed = _replay(cfg, mdl, tr, flat, "zoh")
    obs.append(o)
    # integer leaves keep their dtype
    obs.append(Ob(f"{interp}: leaves keep their dtypes and the step receives exactly `window` entries",
                  "unsat" if (str(out.seq.dtype) == "int32" and out.seq.shape == (W,) and out.data.y.shape == (W,)) else "sat", 0, cfg, trivial=True, replayed=True,
                  key="interp-dtype", what="interpolated window has the wrong dtype/shape"))
    # gradient w.r.t. alpha: away from breakpoints equals -(max-min) * slope of the segment
    try:
        def newest(a, i, t):
            i2 = i.replace(delay_dist=i.delay_dist.replace(alpha=a))
            return i2.delay_dist.apply_delay(rate, i2, t).data.y[W - 1]

        trg = jx.Traced(lambda i, t: jax.grad(newest)(i.delay_dist.alpha, i, t), ins, np.float32(0.0))
        g = trg.run(it, flat).item()
        conj = []
        for i in range(n - 1):
            inside = z3.And(seq[i] >= 0, seq[i + 1] >= 0, ts_sent[i] + d < ts_start, ts_start < ts_sent[i + 1] + d)
            slope = (data[i + 1] - data[i]) / (ts_sent[i + 1] - ts_sent[i])
            conj.append(z3.Implies(inside, g == -span * slope))
        v, s = "unsat", 0.0
        for gi in conj:  # one query per segment
            fa = smt.abstract_apps(inv + [gi])
            vi, mdl, si = smt.check(fa[:-1], fa[-1], tmo_heavy if heavy else tmo)
            s += si
            if vi == "sat":
                v = "sat"
                break
            if vi == "unknown":
                v = "unknown"
        o = Ob(f"{interp}: d(newest entry)/d(alpha) == -(max-min) * finite-difference slope of the bracketing messages, strictly inside a segment", v, s, cfg,
               key="interp-grad", what="gradient of the interpolated value w.r.t. the delay parameter is not minus the signal's slope", queries=len(conj),
               optional=heavy or float(dmin) != 0.0)  # with a non-zero minimal delay the non-linear gradient query is erratic as well: required for min = 0, attempted otherwise
        if v == "sat":
            o.replayed = _replay_grad(cfg)
        obs.append(o)
    except jx.Unsupported as e:
        obs.append(Ob(f"{interp}: gradient obligation", "error", 0, cfg, detail=f"primitive not modelled: {e}"))
    v, mdl, s = smt.satisfiable(inv + [m == ext, seq[0] >= 0, data[0] != data[1]], 30)
    obs.append(Ob(f"{interp}: twin.full window with the maximal number of unarrived entries", v, s, cfg, kind="vacuity"))
    v, mdl, s = smt.satisfiable(inv + [z3.And(seq[n - 2] >= 0, ts_sent[n - 2] + d < ts_start, ts_start < ts_sent[n - 1] + d)], 30)
    obs.append(Ob(f"{interp}: twin.strictly inside a segment", v, s, cfg, kind="vacuity"))
    return obs


def worker_payload(cfg, tier):
    """payload shapes: interpolating a window of vector (or matrix) payloads equals interpolating every component on its own
    (differential between two evaluations of the real apply_delay on the same symbolic timings; the scalar case is decided by `worker`)"""
    import jax.numpy as jnp
    from rex.base import InputState, TrainableDist
    from vlib import cg, jx, smt
    from vlib.fixtures import POutput

    W, rate, dmin, dmax, interp, pshape = cfg["W"], cfg["rate"], cfg["min"], cfg["max"], cfg["interp"], tuple(cfg["payload"])
    dd = TrainableDist(alpha=jnp.float32(0.5), min=float(dmin), max=float(dmax), interp=interp)
    n = W + dd.window(rate)
    mk = lambda shp: InputState.from_outputs(np.zeros(n, np.int32), np.zeros(n, np.float32), np.zeros(n, np.float32), POutput(y=np.zeros((n,) + shp, np.float32)), delay_dist=dd, is_data=True)
    it = jx.Interp()
    f = lambda i, t: i.delay_dist.apply_delay(rate, i, t)
    trv = jx.Traced(f, mk(pshape), np.float32(0.0))
    trs = jx.Traced(f, mk(()), np.float32(0.0))
    flat_v = trv.sym_inputs(it, "v")
    k = [i for i, sa in enumerate(flat_v) if tuple(sa.shape) == (n,) + pshape][0]
    outv = trv.run(it, flat_v)
    conj, t0 = [], time.time()
    for c in np.ndindex(*pshape):
        flat_s = list(flat_v)
        flat_s[k] = jx.SA(flat_v[k].v[(slice(None),) + c], flat_v[k].dtype)
        outs = trs.run(it, flat_s)
        e = jx.sa_equal(it.alg, jx.SA(outv.data.y.v[(slice(None),) + c], outv.data.y.dtype), outs.data.y)
        conj.append(z3.BoolVal(e) if isinstance(e, bool) else e)
        for a, b in ((outv.seq, outs.seq), (outv.ts_sent, outs.ts_sent), (outv.ts_recv, outs.ts_recv)):
            e = jx.sa_equal(it.alg, a, b)
            conj.append(z3.BoolVal(e) if isinstance(e, bool) else e)
    goal = z3.simplify(z3.And(*conj))
    triv = z3.is_true(goal)
    v, mdl, s_ = ("unsat", None, 0.0) if triv else smt.check([], goal, 120)
    o = Ob(f"{interp}: a window of {pshape}-shaped payloads is interpolated component by component (entry j, component c == scalar result for component c)", v, time.time() - t0, cfg,
           trivial=triv, key="interp-payload-shape", what=f"apply_delay({interp}) scrambles multi-dimensional payloads when window > 1 (entries and components are mixed up)")
    if v == "sat":
        o.replayed = _replay_payload(cfg)
    return [o]


def _replay_payload(cfg):
    """real apply_delay on a regular sender with component-wise distinguishable payloads: vector result vs per-component scalar results"""
    import jax.numpy as jnp
    from rex.base import InputState, TrainableDist
    from vlib.fixtures import POutput

    try:
        W, rate, pshape = cfg["W"], cfg["rate"], tuple(cfg["payload"])
        dd = TrainableDist(alpha=jnp.float32(0.5), min=float(cfg["min"]), max=float(cfg["max"]), interp=cfg["interp"])
        n = W + dd.window(rate)
        seq, sent = np.arange(n, dtype=np.int32), (np.arange(n) / rate).astype(np.float32)
        P = int(np.prod(pshape))
        y = (np.arange(n, dtype=np.float32)[:, None] * (1 + np.arange(P, dtype=np.float32))[None, :] + 100 * np.arange(P, dtype=np.float32)[None, :]).reshape((n,) + pshape)
        d = float(cfg["min"]) + 0.5 * (float(cfg["max"]) - float(cfg["min"]))
        ts = np.float32(sent[n - 1] + d - 0.25 / rate)
        mk = lambda data: InputState.from_outputs(seq, sent, sent + np.float32(cfg["min"]), POutput(y=data), delay_dist=dd, is_data=True)
        outv = np.asarray(dd.apply_delay(rate, mk(y), ts).data.y)
        bad = False
        for c in np.ndindex(*pshape):
            outs = np.asarray(dd.apply_delay(rate, mk(y[(slice(None),) + c]), ts).data.y)
            bad = bad or not np.allclose(outv[(slice(None),) + c], outs, rtol=1e-5, atol=1e-6)
        return bool(bad)
    except BaseException:  # noqa
        return None


def _np_pl(x, K, V):
    return float(np.interp(x, np.asarray(K, np.float64), np.asarray(V, np.float64)))


def _replay(cfg, mdl, tr, flat, what):
    import jax
    from vlib import cg

    try:
        args = cg.model_inputs(mdl, tr, flat)
        ins, ts = args
        W, n = cfg["W"], len(np.asarray(ins.seq))
        out = tr.fn(ins, ts)
        a = float(ins.delay_dist.alpha)
        d = float(np.float32(cfg["min"])) + a * float(np.float32(cfg["max"] - cfg["min"]))
        seq, sent, recv, data = np.asarray(ins.seq), np.asarray(ins.ts_sent, np.float64), np.asarray(ins.ts_recv, np.float64), np.asarray(ins.data.y, np.float64)
        K = np.where(seq < 0, recv, sent + d)
        want = _np_pl(float(ts), K, data)
        return abs(float(out.data.y[W - 1]) - want) > 1e-4 * max(1.0, abs(want))
    except BaseException:  # noqa
        return None


def _replay_grad(cfg):
    import jax
    import jax.numpy as jnp
    from rex.base import InputState, TrainableDist
    from vlib.fixtures import POutput

    try:
        W, rate = cfg["W"], cfg["rate"]
        dd = TrainableDist(alpha=jnp.float32(0.5), min=float(cfg["min"]), max=float(cfg["max"]), interp=cfg["interp"])
        ext = dd.window(rate)
        n = W + ext
        seq = np.arange(n, dtype=np.int32)
        sent = (np.arange(n) / rate).astype(np.float32)
        data = np.asarray([0.0, 1.0, 4.0, 9.0, 16.0, 25.0][:n], np.float32)
        ins = InputState.from_outputs(seq, sent, sent + np.float32(cfg["min"]), POutput(y=data), delay_dist=dd, is_data=True)
        d = float(cfg["min"]) + 0.5 * (float(cfg["max"]) - float(cfg["min"]))
        ts = np.float32(sent[n - 2] + d + 0.3 / rate)

        def newest(a):
            i2 = ins.replace(delay_dist=dd.replace(alpha=a))
            return i2.delay_dist.apply_delay(rate, i2, ts).data.y[W - 1]

        g = float(jax.grad(newest)(jnp.float32(0.5)))
        slope = float((data[n - 1] - data[n - 2]) * rate)
        want = -(float(cfg["max"]) - float(cfg["min"])) * slope
        return abs(g - want) > 1e-2 * max(1.0, abs(want))
    except BaseException:  # noqa
        return None


def configs(tier):
    out = []
    for interp in ("linear", "linear_real_only"):
        for W in ((1, 2) if tier == "quick" else (1, 2)):
            for (rate, mn, mx) in ([(64, 0.0, 0.03125)] if tier == "quick" else [(64, 0.0, 0.03125), (64, 0.015625, 0.0625)]):
                if tier == "quick" and W == 2 and interp == "linear_real_only":
                    continue
                out.append(dict(W=W, rate=rate, min=mn, max=mx, interp=interp))
    return out


def run(rep):
    from rex.base import TrainableDist
    from vlib.common import pmap

    rep.technique = ("jaxpr of the live TrainableDist.apply_delay (linear / linear_real_only; jnp.interp inlined) and of jax.grad through it interpreted over z3 reals; "
                     "the piecewise-linear interpolant is stated independently as an If-chain; z3 (non-linear real arithmetic) decides equality, bracketing, zoh "
                     "coincidence and the gradient law; counterexamples re-checked numerically on the real function")
    rep.encode(TrainableDist.apply_delay)
    cfgs = configs(rep.tier)
    rep.configs = cfgs
    rep.bounds = dict(window=[1, 2], ext=sorted({2, 3}), payload="scalar f32", per_query_cap_s=400 if rep.tier == "quick" else 1200)
    rep.assumptions = ["floats as reals (float32 rounding of slopes outside)", "extended-window invariant of C10 plus send times at least 1us apart and sender regularity (<= ext unarrived entries)",
                       "'linear': at most one not-yet-filled entry (several default entries share the knot t=0); 'linear_real_only': windows without default entries "
                       "(its -1e9 sentinel relies on float absorption, which the real model cannot express) -- both restrictions are stated bounds",
                       "continuity in the delay is covered through the zero-order-hold coincidence at the breakpoints; Lipschitz bound not attempted",
                       "window 2: the interpolant/gradient equalities are non-linear queries whose nlsat time is erratic; they are attempted under a cap and, if the solver does not answer, "
                       "reported under notes and dropped from the claim (never counted as held); window 1 and the zoh-coincidence/bracketing obligations are required"]
    obs = pmap("props.c11", "worker", cfgs, rep.tier)
    # the interpolation obligations assume a window extended by ext = ceil(rate*(max-min)) entries (what a regular sender can have in flight within [min, max]);
    # that the code's TrainableDist.window provides them is checked here against the exact rational bound, also for lower bounds that are not a whole
    # number of sender periods
    from fractions import Fraction
    from vlib.common import Ob
    rep.encode(TrainableDist.window)
    for (rate, mn, mx) in [(64, 0.0, 0.03125), (64, 0.015625, 0.0625), (32, 0.015625, 0.0234375), (10, 0.05, 0.2), (100, 0.001, 0.0235), (64, 0.0078125, 0.03515625), (10, 0.11, 0.19)]:
        code = TrainableDist.create(mn, mn, mx).window(rate)
        need = int(-((-Fraction(str(rate)) * (Fraction(str(mx)) - Fraction(str(mn)))) // 1))
        obs.append(Ob("the window is extended by at least ceil(rate*(max-min)) entries", "unsat" if code >= need else "sat", 0, dict(rate=rate, min=mn, max=mx), detail=f"window()={code} needed={need}",
                      trivial=True, replayed=True, key="interp-window-extension",
                      what=f"TrainableDist.window({rate}) = {code} extra entries for [min, max] = [{mn}, {mx}], but {need} messages of a regular sender can be in flight: the interpolant is clamped to a too-new message"))
    pcfgs = [dict(W=w, rate=64, min=0.0, max=0.03125, interp=ip, payload=list(ps)) for ip in ("linear", "linear_real_only") for w, ps in ((2, (2,)), (1, (3,)), (3, (2,)), (2, (2, 2)))]
    if rep.tier == "thorough":
        pcfgs += [dict(W=w, rate=64, min=0.015625, max=0.0625, interp=ip, payload=list(ps)) for ip in ("linear", "linear_real_only") for w, ps in ((2, (3,)), (3, (2, 2)), (4, (2,)))]
    rep.configs = list(cfgs) + pcfgs
    rep.bounds["payload"] = "scalar f32 (laws); vectors/matrices up to 2x2 and window <= 3 (4) reduced to the scalar case component by component"
    obs += pmap("props.c11", "worker_payload", pcfgs, rep.tier)
    rep.add_all(obs)


def replay(rp):
    return False
