"""C04 — step start times obey the documented rate, phase, delay and scheduling law.

Engine A on the real push_scheduled_ts -> push_phase_shift -> push_step chain of _AsyncNodeWrapper over consecutive ticks, with
symbolic phase, computation delays and blocking-input arrival times; the law is written independently in max-form as z3 terms.
"""
from fractions import Fraction

import z3

from vlib.common import Ob


def zmax(*ts):
    r = ts[0]
    for t in ts[1:]:
        r = z3.If(t >= r, t, r)
    return r


def build(V, cfg):
    """drive `nticks` ticks of one node; returns (node wrapper, recorder, observed per-tick dicts, inputs)"""
    from rex.constants import Scheduling
    from vlib import asyncsym

    rate, nb, nnb = cfg["rate"], cfg["n_blocking"], cfg["n_nonblocking"]
    sched = Scheduling.PHASE if cfg["scheduling"] == "phase" else Scheduling.FREQUENCY
    K = cfg["nticks"]
    rec = asyncsym.Recorder()
    ph = V.grid("phase", lo=0, hi=1)
    node = asyncsym.mk_node(V, rec, "n", rate, phase=ph, advance=cfg["advance"], scheduling=sched,
                            record_setting=cfg.get("record_setting"), max_records=cfg.get("max_records", 20000), init_seq=cfg.get("init_seq", 0), gs_eps=cfg.get("gs_eps"))
    srcs, conns = [], []
    for j in range(nb + nnb):
        s = asyncsym.mk_node(V, rec, f"s{j}", 10)
        c = asyncsym.mk_conn(V, rec, s, node, blocking=(j < nb), window=1)
        srcs.append(s)
        conns.append(c)
    out = asyncsym.mk_node(V, rec, "consumer", 10)
    oc = asyncsym.mk_conn(V, rec, node, out, blocking=False)
    n_pre = len(rec.tasks)
    toks = asyncsym.real_reset_start(V, [node])  # initial state (drift, end of 'previous' step, queues) comes from the real _reset/_start
    started = [(t is node, n) for t, n, a in rec.tasks[n_pre:]] == [(True, "push_scheduled_ts")] and toks["n"] >= 1
    del rec.tasks[n_pre:]
    tsmax = [[V.grid(f"tsmax{j}_{k}", lo=0) for k in range(K)] for j in range(nb)]
    for j in range(nb):
        for k in range(K):
            conns[j].q_ts_max.append(tsmax[j][k])
    groups = {}
    for j, c in enumerate(conns):
        for k in range(K):
            if cfg.get("groups"):  # one message per tick and input (symbolic send/receive times)
                g = [(k, V.real(f"gs{j}_{k}", lo=0), V.grid(f"gr{j}_{k}", lo=0), ("msg", j, k))]
            else:
                g = []  # empty groups: the step may fire as soon as its start time is known
            groups[(j, k)] = g
            if not cfg.get("ahead"):
                c.q_grouped.append(g)
    obs = []
    for k in range(K):
        node.q_tick.append(True)
        n_tasks = len(rec.tasks)
        node.push_scheduled_ts()
        fired = len(node._record_steps) == k + 1
        obs.append(dict(fired=fired, tasks=list(rec.tasks[n_tasks:])))
    if cfg.get("ahead"):
        # the other legal schedule: the scheduling chain has simulated all K ticks ahead (tokens allow it) before any selected group arrives; the steps
        # then fire one by one from the connections' push_selection -> push_step pokes
        for k in range(K):
            n_tasks = len(rec.tasks)
            for j, c in enumerate(conns):
                c.q_grouped.append(groups[(j, k)])
                node.push_step()
            obs[k] = dict(fired=len(node._record_steps) == k + 1, tasks=obs[k]["tasks"] + list(rec.tasks[n_tasks:]))
    return node, rec, obs, dict(phase=ph, tsmax=tsmax, conns=conns, out_conn=oc, groups=groups, started=started)


def scen_law(cfg):
    from vlib.pysym import SymBool, T, sym_round, zb

    def scenario(V):
        node, rec, obs, inp = build(V, cfg)
        K, rate, nb = cfg["nticks"], cfg["rate"], cfg["n_blocking"]
        only_blocking = cfg["advance"] and cfg["n_nonblocking"] == 0
        freq = cfg["scheduling"] == "frequency"
        res = {}
        if not V.symbolic:
            return _concrete_law(V, cfg, node, rec, obs, inp)
        ph = inp["phase"]
        delays = node.delays
        # independent statement of the law (z3 terms over the inputs)
        drift = z3.RealVal(0)
        end_prev = z3.RealVal(0)
        conj_start, conj_end, conj_sched, conj_rec, conj_never, conj_spacing, conj_phase, conj_out = [], [], [], [], [], [], [], []
        starts = []
        for k in range(K):
            r = node._record_steps[k]
            sched_k = T(sym_round(Fraction(k, rate) + ph, 6))
            tm = zmax(z3.RealVal(0), *[T(inp["tsmax"][j][k]) for j in range(nb)]) if nb else z3.RealVal(0)
            cands = [tm, end_prev] + ([] if only_blocking else [sched_k + drift])
            start_k = zmax(*cands)
            d_k = T(delays[k])
            end_k = start_k + d_k
            conj_sched.append(z3.And(T(r.ts_scheduled) == sched_k, T(r.ts_scheduled) * 1000000 - (Fraction(k, rate) * 1000000 + T(ph) * 1000000) <= Fraction(1, 2),
                                     T(r.ts_scheduled) * 1000000 - (Fraction(k, rate) * 1000000 + T(ph) * 1000000) > -Fraction(1, 2)))
            conj_start.append(T(r.ts_start) == start_k)
            conj_end.append(z3.And(T(r.ts_end) == end_k, T(r.delay) == d_k, T(r.sent.ts) == end_k, r.sent.seq == k, r.seq == k))
            conj_rec.append(z3.And(T(r.ts_max) == tm, T(r.ts_end_prev) == end_prev, T(r.phase_scheduled) == drift))
            if not only_blocking:
                conj_never.append(T(r.ts_start) >= sched_k)
            # what consumers are told: the end time
            told = [a for t_, n_, a in obs[k]["tasks"] if n_ == "push_ts_input" and t_ is inp["out_conn"]]
            conj_out.append(z3.And(len(told) == 1, T(told[0][0]) == end_k, T(told[0][1].ts) == end_k, told[0][1].seq == k) if told else z3.BoolVal(False))
            if cfg["scheduling"] == "phase" and not only_blocking:
                conj_phase.append(z3.Implies(z3.And(end_prev <= sched_k, tm <= sched_k), T(r.ts_start) == sched_k))
            starts.append((start_k, tm, end_prev, sched_k, drift))
            if freq:
                drift = zmax(drift, end_prev - sched_k)
            else:
                drift = z3.RealVal(0)
            end_prev = end_k
        if freq and not only_blocking:
            for k in range(K - 1):
                s_k, tm_k, ep_k, sc_k, dr_k = starts[k]
                not_held = tm_k <= zmax(ep_k, sc_k + dr_k)
                conj_spacing.append(z3.Implies(not_held, T(node._record_steps[k + 1].ts_start) - T(node._record_steps[k].ts_start) >= Fraction(1, rate) - Fraction(1, 1000000)))
        S = lambda xs: SymBool(z3.And(*xs)) if xs else True
        res["scheduled time of tick k is k/rate + phase on the 1us grid (|error| <= 0.5us)"] = S(conj_sched)
        res["start_k == max(arrival of blocking inputs, end of previous step" + ("" if only_blocking else ", scheduled_k + drift_k") + ")"] = S(conj_start)
        res["end_k == start_k + sampled delay_k; recorded delay and sent header agree; seq == tick"] = S(conj_end)
        res["recorded ts_max / ts_end_prev / drift are the ones the law uses (drift: FREQUENCY accumulates max(0, overrun), PHASE stays 0)"] = S(conj_rec)
        res["consumers are told end_k (header ts) exactly once per tick"] = S(conj_out)
        if conj_never:
            res["a step never starts before its scheduled time (unless advance with only blocking inputs)"] = S(conj_never)
        if conj_spacing:
            res["FREQUENCY: consecutive starts at least 1/rate - 1us apart when not held up by a blocking input"] = S(conj_spacing)
        if conj_phase:
            res["PHASE: a step that has caught up starts exactly at its scheduled time"] = S(conj_phase)
        res["all ticks executed exactly one step each, in order"] = all(o["fired"] for o in obs) and [int(s.seq) for s in node.node.step_calls] == list(range(K))
        res["_reset/_start leave exactly one scheduling task and at least one tick token"] = inp["started"]
        res["no overlap: start_k >= end_{k-1}"] = S([T(node._record_steps[k].ts_start) >= T(node._record_steps[k - 1].ts_end) for k in range(1, K)]) if K > 1 else True
        if K >= 2 and nb:
            res["twin:held up by a blocking input"] = SymBool(T(node._record_steps[1].ts_start) == T(inp["tsmax"][0][1]))
        res["twin:overrun (delay longer than the period)"] = SymBool(T(delays[0]) > Fraction(1, rate))
        return res

    return scenario


def _concrete_law(V, cfg, node, rec, obs, inp):
    """float re-evaluation of the same law on the unpatched handlers (replay of a solver model)"""
    K, rate, nb = cfg["nticks"], cfg["rate"], cfg["n_blocking"]
    only_blocking = cfg["advance"] and cfg["n_nonblocking"] == 0
    freq = cfg["scheduling"] == "frequency"
    ph = float(inp["phase"])
    ok = {k: True for k in ["sched", "start", "end", "rec", "out", "never", "spacing", "phase", "overlap"]}
    drift, end_prev = 0.0, 0.0
    tol = 1e-9
    prev_start, prev_not_held = None, None
    for k in range(K):
        r = node._record_steps[k]
        sched_k = round(k / rate + ph, 6)
        tm = max([0.0] + [float(inp["tsmax"][j][k]) for j in range(nb)])
        cands = [tm, end_prev] + ([] if only_blocking else [sched_k + drift])
        start_k = max(cands)
        d_k = float(node.delays[k])
        end_k = start_k + d_k
        ok["sched"] &= abs(r.ts_scheduled - sched_k) < tol
        ok["start"] &= abs(r.ts_start - start_k) < tol
        ok["end"] &= abs(r.ts_end - end_k) < tol and abs(r.delay - d_k) < tol and abs(r.sent.ts - end_k) < tol and r.seq == k
        ok["rec"] &= abs(r.ts_max - tm) < tol and abs(r.ts_end_prev - end_prev) < tol and abs(r.phase_scheduled - drift) < tol
        told = [a for t_, n_, a in obs[k]["tasks"] if n_ == "push_ts_input" and t_ is inp["out_conn"]]
        ok["out"] &= len(told) == 1 and abs(told[0][0] - end_k) < tol
        if not only_blocking:
            ok["never"] &= r.ts_start >= sched_k - tol
        if cfg["scheduling"] == "phase" and not only_blocking and end_prev <= sched_k and tm <= sched_k:
            ok["phase"] &= abs(r.ts_start - sched_k) < tol
        if freq and not only_blocking and prev_start is not None and prev_not_held:
            ok["spacing"] &= r.ts_start - prev_start >= 1 / rate - 1e-6 - tol
        if k:
            ok["overlap"] &= r.ts_start >= node._record_steps[k - 1].ts_end - tol
        prev_start, prev_not_held = r.ts_start, tm <= max(end_prev, sched_k + drift) + tol
        drift = max(drift, end_prev - sched_k) if freq else 0.0
        end_prev = end_k
    names = {
        "scheduled time of tick k is k/rate + phase on the 1us grid (|error| <= 0.5us)": "sched",
        "start_k == max(arrival of blocking inputs, end of previous step" + ("" if only_blocking else ", scheduled_k + drift_k") + ")": "start",
        "end_k == start_k + sampled delay_k; recorded delay and sent header agree; seq == tick": "end",
        "recorded ts_max / ts_end_prev / drift are the ones the law uses (drift: FREQUENCY accumulates max(0, overrun), PHASE stays 0)": "rec",
        "consumers are told end_k (header ts) exactly once per tick": "out",
        "a step never starts before its scheduled time (unless advance with only blocking inputs)": "never",
        "FREQUENCY: consecutive starts at least 1/rate - 1us apart when not held up by a blocking input": "spacing",
        "PHASE: a step that has caught up starts exactly at its scheduled time": "phase",
        "no overlap: start_k >= end_{k-1}": "overlap",
    }
    res = {n: ok[v] for n, v in names.items()}
    res["all ticks executed exactly one step each, in order"] = all(o["fired"] for o in obs) and [int(s.seq) for s in node.node.step_calls] == list(range(K))
    res["_reset/_start leave exactly one scheduling task and at least one tick token"] = inp["started"]
    return res


def worker(cfg, tier):
    import rex.asynchronous as A
    from props.c03 import _to_obs
    from vlib import pysym

    res, stats = pysym.run_scenario(scen_law(cfg), [A], extra_patch={"rex.asynchronous": {"onp": pysym.FakeNumpy(A.onp)}},
                                    timeout_ms=30000 if tier == "quick" else 120000)
    obs, stats = _to_obs(res, stats, cfg, "timing-law")
    if obs:
        obs[0].detail = {"stats": stats}
        obs[0].queries += stats["queries"]
    return obs


def configs(tier):
    th = tier == "thorough"
    out = []
    rates = [10, 13] if not th else [3, 10, 13, 50]
    for rate in rates:
        for sched in ("frequency", "phase"):
            for advance in (False, True):
                for nb, nnb in ((0, 0), (1, 0), (2, 0), (1, 1), (0, 1)):
                    if not th and rate == 13 and (nb, nnb) in ((2, 0), (0, 1)):
                        continue
                    out.append(dict(rate=rate, scheduling=sched, advance=advance, n_blocking=nb, n_nonblocking=nnb,
                                    nticks=(3 if nb < 2 else 2) if not th else (4 if nb < 2 else 3)))
    return out


def run(rep):
    import rex.asynchronous as A
    from vlib.common import pmap

    rep.technique = ("proxy-based symbolic execution of the real push_scheduled_ts/push_phase_shift/push_step of _AsyncNodeWrapper over consecutive ticks "
                     "(symbolic phase, delays, blocking arrivals; 1us grid normal form); the timing law is stated independently in max-form as z3 terms and "
                     "proved equal on every feasible path; counterexamples replayed with python floats on the unpatched handlers")
    N = A._AsyncNodeWrapper
    rep.encode(N.push_scheduled_ts, N.push_phase_shift, N.push_step, N._async_step, N.async_step)
    cfgs = configs(rep.tier)
    rep.configs = cfgs
    rep.bounds = dict(ticks=sorted({c["nticks"] for c in cfgs}), rates=sorted({c["rate"] for c in cfgs}), blocking_inputs="0..2", scheduling=["frequency", "phase"], advance=[False, True])
    rep.assumptions = ["simulated clock; floats as reals; round-half-up on the 1us grid; phase on the grid in [0,1]",
                       "blocking-input arrival times are arbitrary on-grid non-negative values; computation delays arbitrary non-negative reals",
                       "communication clause (recv = round6(max(end + d, prev))) is C03's push_ts_input obligation"]
    rep.stubs = ["_submit -> recorder", "node.step -> opaque stand-in", "numpy dtype promotion of tick/ts (onp.array(x).astype) -> identity", "throttle disabled"]
    obs = pmap("props.c04", "worker", cfgs, rep.tier)
    # "arrival of blocking inputs" is an input of the law above (q_ts_max entries); that the connection computes it as the latest receive time of *all*
    # messages the step waits for is C03's push_ts_max scenario, claimed here as well (k awaited messages >, = and < the window)
    import rex.asynchronous as A
    rep.encode(A._AsyncConnectionWrapper.push_ts_max)
    tm = pmap("props.c03", "worker", [dict(scen="ts_max", nq=nq, k=k) for nq, k in ((3, 2), (1, 2), (2, 0), (4, 3))], rep.tier)
    obs += tm
    rep.paths = sum((o.get("detail") or {}).get("stats", {}).get("paths", 0) for o in obs if isinstance(o.get("detail"), dict))
    rep.add_all(obs)


def replay(rp):
    return False
