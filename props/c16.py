"""C16 — node phases and node infos stay consistent with the configured delays.

Engine A on the real rex.node.BaseNode / Connection (phase, phase_output, set_delay, info, from_info, connect_from_info) with a
pure-Python delay-distribution stand-in whose expected delay is a solver symbol; topologies and skip labellings are enumerated.
Also the C15 clause "default expected delay = quantile(0.99), negative rejected".
"""
import itertools
from fractions import Fraction

import z3

from vlib.common import Ob


def _dist_cls():
    from typing import Any

    from flax import struct
    from rex import base

    @struct.dataclass
    class SymDist(base.DelayDistribution):
        qv: Any  # the expected (99th percentile) delay: a solver symbol
        tag: str = struct.field(pytree_node=False, default="d")

        def quantile(self, q):
            return self.qv

        def mean(self):
            return self.qv

        def reset(self, rng):
            return self

    return SymDist


def dags(n):
    """all DAG edge sets on nodes 0..n-1 with edges i->j only for i<j (every DAG is isomorphic to one of these), non-empty"""
    pairs = [(i, j) for i in range(n) for j in range(i + 1, n)]
    out = []
    for k in range(1, len(pairs) + 1):
        for es in itertools.combinations(pairs, k):
            out.append(es)
    return out


def build_nodes(V, cfg, SymDist, tag=""):
    from rex.node import BaseNode

    n, edges, skips = cfg["n"], cfg["edges"], cfg["skips"]
    nd = [V.grid(f"nd{i}", lo=0, hi=1) for i in range(n)]
    cd = {e: V.grid(f"cd{e[0]}_{e[1]}", lo=0, hi=1) for e in edges}
    if cfg.get("explicit"):
        # expected delays given explicitly (any value in [0,1], including exactly 0) and different from the distributions' percentiles
        nodes = [BaseNode(name=f"n{i}", rate=10 + i, delay=nd[i], delay_dist=SymDist(qv=V.grid(f"nq{i}", lo=0, hi=1), tag=f"n{i}")) for i in range(n)]
        for (i, j), sk in zip(edges, skips):
            nodes[j].connect(nodes[i], blocking=cfg.get("blocking", False), delay=cd[(i, j)], delay_dist=SymDist(qv=V.grid(f"cq{i}_{j}", lo=0, hi=1), tag=f"c{i}{j}"),
                             window=1 + (i + j) % 2, skip=sk, name=(f"in{i}" if cfg.get("shadow") else None))
        return nodes, nd, cd
    nodes = [BaseNode(name=f"n{i}", rate=10 + i, delay_dist=SymDist(qv=nd[i], tag=f"n{i}")) for i in range(n)]
    for (i, j), sk in zip(edges, skips):
        nodes[j].connect(nodes[i], blocking=cfg.get("blocking", False), delay_dist=SymDist(qv=cd[(i, j)], tag=f"c{i}{j}"), window=1 + (i + j) % 2, skip=sk,
                         name=(f"in{i}" if cfg.get("shadow") else None))
    return nodes, nd, cd


def path_sums(n, edges, skips, nd, cd, target):
    """expected-delay sums of all non-skipped paths ending in `target` (independent oracle: explicit path enumeration)"""
    live = [e for e, sk in zip(edges, skips) if not sk]
    sums = []

    def rec(node, acc):
        for (i, j) in live:
            if j == node:
                s = acc + nd[i] + cd[(i, j)]
                sums.append(s)
                rec(i, s)

    rec(target, 0)
    return sums


def _maxis(V, val, sums):
    """val == max(0, *sums)"""
    from vlib.pysym import SymBool, T, zb
    if V.symbolic:
        conj = [zb(val >= 0)] + [zb(val >= s) for s in sums]
        disj = [zb(val == 0)] + [zb(val == s) for s in sums]
        return SymBool(z3.And(z3.And(*conj), z3.Or(*disj)))
    m = max([0.0] + [float(s) for s in sums])
    return abs(float(val) - m) < 1e-9


def scen_phase(cfg):
    SymDist = _dist_cls()

    def scenario(V):
        n, edges, skips = cfg["n"], cfg["edges"], cfg["skips"]
        nodes, nd, cd = build_nodes(V, cfg, SymDist)
        res = {}
        from props.c03 import _allv, _close
        ok_phase, ok_out, ok_cphase = [], [], []
        for t in range(n):
            sums = path_sums(n, edges, skips, nd, cd, t)
            ph = nodes[t].phase
            ok_phase.append(_maxis(V, ph, sums))
            ok_out.append(_close(V, nodes[t].phase_output, ph + nd[t]))
        for (i, j) in edges:
            c = nodes[j].inputs[f"n{i}"]
            ok_cphase.append(_close(V, c.phase, nodes[i].phase + nd[i] + cd[(i, j)]))
        res["node phase == longest expected-delay path over non-skipped connections (0 for sources)"] = _allv(V, ok_phase)
        res["the configured expected delays are the ones nodes, connections and infos report"] = _allv(V, [_close(V, nodes[t].delay, nd[t]) for t in range(n)] + [_close(V, nodes[j].inputs[f"n{i}"].delay, cd[(i, j)]) for (i, j) in edges]
                                                                                                        + [_close(V, nodes[j].info.inputs[f"n{i}"].delay, cd[(i, j)]) for (i, j) in edges])
        res["phase_output == phase + expected computation delay; connection phase == sender phase_output + expected connection delay"] = _allv(V, ok_out + ok_cphase)
        # set_delay(delay=..) takes effect downstream
        new = V.grid("new_delay", lo=0, hi=1)
        nodes[0].set_delay(delay=new)
        nd2 = [new] + nd[1:]
        ok2 = [_maxis(V, nodes[t].phase, path_sums(n, edges, skips, nd2, cd, t)) for t in range(n)]
        ok2.append(_close(V, nodes[0].info.delay, new))
        ok2.append(_close(V, nodes[n - 1].info.phase, nodes[n - 1].phase))
        res["after node.set_delay(delay=d) every downstream phase and the infos use d"] = _allv(V, ok2)
        e0 = edges[0]
        newc = V.grid("new_cdelay", lo=0, hi=1)
        nodes[e0[1]].inputs[f"n{e0[0]}"].set_delay(delay=newc)
        cd2 = dict(cd)
        cd2[e0] = newc
        ok3 = [_maxis(V, nodes[t].phase, path_sums(n, edges, skips, nd2, cd2, t)) for t in range(n)]
        ok3.append(_close(V, nodes[e0[1]].info.inputs[f"n{e0[0]}"].delay, newc))
        res["after connection.set_delay(delay=d) every downstream phase and the infos use d"] = _allv(V, ok3)
        # a longer history: overwrite node 0's delay again, change the last node and the last connection, and a call that only passes a distribution
        new2, newl, newc2 = V.grid("new_delay2", lo=0, hi=1), V.grid("new_delay_last", lo=0, hi=1), V.grid("new_cdelay2", lo=0, hi=1)
        nodes[0].set_delay(delay=new2)
        nodes[n - 1].set_delay(delay=newl)
        el = edges[-1]
        nodes[el[1]].inputs[f"n{el[0]}"].set_delay(delay=newc2)
        keep_dist = SymDist(qv=V.grid("other_q", lo=0, hi=1), tag="other")
        nodes[0].set_delay(delay_dist=keep_dist)  # no expected delay given: the configured one stays
        nd3 = list(nd2)
        nd3[0] = new2
        nd3[n - 1] = newl if n - 1 != 0 else new2
        cd3 = dict(cd2)
        cd3[el] = newc2
        ok4 = [_maxis(V, nodes[t].phase, path_sums(n, edges, skips, nd3, cd3, t)) for t in range(n)]
        ok4 += [_close(V, nodes[t].info.delay, nd3[t]) for t in range(n)] + [_close(V, nodes[t].info.phase, nodes[t].phase) for t in range(n)]
        ok4.append(nodes[0].delay_dist is keep_dist and nodes[0].info.delay_dist is keep_dist)
        res["after a history of further set_delay calls (overwrite, other node, other connection, distribution only) phases and infos follow the latest values"] = _allv(V, ok4)
        live_targets = [j for (i, j), sk in zip(edges, skips) if not sk]
        if live_targets:
            res["twin:some phase positive"] = nodes[live_targets[0]].phase > 0
        return res

    return scenario


def scen_set_dist(cfg):
    SymDist = _dist_cls()

    def scenario(V):
        from rex.node import BaseNode
        from props.c03 import _allv, _close

        a = BaseNode(name="a", rate=10, delay_dist=SymDist(qv=V.grid("qa", lo=0, hi=1), tag="old-node"))
        b = BaseNode(name="b", rate=20, delay_dist=SymDist(qv=V.grid("qb", lo=0, hi=1), tag="b"))
        b.connect(a, delay_dist=SymDist(qv=V.grid("qc", lo=0, hi=1), tag="old-conn"))
        new_n = SymDist(qv=V.grid("qa_new", lo=0, hi=1), tag="new-node")
        new_c = SymDist(qv=V.grid("qc_new", lo=0, hi=1), tag="new-conn")
        a.set_delay(delay_dist=new_n)
        c = b.inputs["a"]
        c.set_delay(delay_dist=new_c)
        return {
            "node.set_delay(delay_dist=D) makes D the node's delay distribution (simulation and info use it)": _allv(V, [_close(V, a.delay_dist.quantile(0.5), new_n.qv), _close(V, a.info.delay_dist.quantile(0.5), new_n.qv)]) and a.delay_dist is new_n,
            "connection.set_delay(delay_dist=D) makes D the connection's delay distribution (simulation and info use it)": _allv(V, [_close(V, c.delay_dist.quantile(0.5), new_c.qv), _close(V, c.info.delay_dist.quantile(0.5), new_c.qv)]) and c.delay_dist is new_c,
            "set_delay without arguments changes nothing": _keeps(V, a, b),
        }

    return scenario


def scen_reconnect(cfg):
    """history: connect, connect the same pair again with other settings, set_delay on the connection -- the sender's view (node.outputs: what graph
    generation, apply_window and the threaded runtime's connection wrappers read) and the receiver's view (node.inputs: phases, infos) must be one object"""
    SymDist = _dist_cls()

    def scenario(V):
        from rex.node import BaseNode
        from props.c03 import _allv, _close

        a = BaseNode(name="a", rate=10, delay_dist=SymDist(qv=V.grid("qa", lo=0, hi=1), tag="a"))
        b = BaseNode(name="b", rate=20, delay_dist=SymDist(qv=V.grid("qb", lo=0, hi=1), tag="b"))
        nm = "obs" if cfg.get("shadow") else None
        key = nm or "a"
        b.connect(a, delay=V.grid("d1", lo=0, hi=1), delay_dist=SymDist(qv=V.grid("q1", lo=0, hi=1), tag="first"), name=nm)
        first = b.inputs[key]
        res = {"connect: the sender's outputs and the receiver's inputs hold the same connection": a.outputs["b"] is b.inputs[key]}
        d2 = V.grid("d2", lo=0, hi=1)
        new = SymDist(qv=V.grid("q2", lo=0, hi=1), tag="second")
        b.connect(a, window=2, delay=d2, delay_dist=new, name=nm)
        c_in, c_out = b.inputs[key], a.outputs["b"]
        res["re-connect: both views hold the new connection (its delay, distribution and window)"] = (c_in is c_out) and (c_in is not first) and (c_out.delay_dist is new) and c_out.window == 2 and bool(_close(V, c_out.delay, d2))
        d3 = V.grid("d3", lo=0, hi=1)
        newer = SymDist(qv=V.grid("q3", lo=0, hi=1), tag="third")
        b.inputs[key].set_delay(delay_dist=newer, delay=d3)
        c_out = a.outputs["b"]
        res["set_delay after a re-connect reaches the connection the sender (hence simulation) uses"] = (c_out.delay_dist is newer) and bool(_close(V, c_out.delay, d3)) and bool(_close(V, c_out.info.delay, d3))
        res["the receiver's phase uses that same expected delay"] = _close(V, b.inputs[key].phase, a.phase_output + d3)
        return res

    return scenario


def _keeps(V, a, b):
    from props.c03 import _close
    d0, dd0 = a.delay, a.delay_dist
    a.set_delay()
    c = b.inputs["a"]
    cd0, cdd0 = c.delay, c.delay_dist
    c.set_delay()
    return (a.delay_dist is dd0) and (c.delay_dist is cdd0) and bool(_close(V, a.delay, d0) if not V.symbolic else True) and bool(_close(V, c.delay, cd0) if not V.symbolic else True)


def scen_info_roundtrip(cfg):
    SymDist = _dist_cls()

    def scenario(V):
        from rex.node import BaseNode
        from props.c03 import _allv, _close

        nodes, nd, cd = build_nodes(V, cfg, SymDist)
        infos = {nd_.name: nd_.info for nd_ in nodes}
        rebuilt = {name: BaseNode.from_info(info) for name, info in infos.items()}
        for name, info in infos.items():
            rebuilt[name].connect_from_info(info.inputs, rebuilt)
        ok = []
        for nd_ in nodes:
            r = rebuilt[nd_.name]
            i1, i2 = nd_.info, r.info
            ok += [i1.name == i2.name, i1.rate == i2.rate, i1.advance == i2.advance, i1.scheduling == i2.scheduling, i1.delay_dist is i2.delay_dist,
                   i1.cls == i2.cls, i1.color == i2.color, i1.order == i2.order, _close(V, i1.delay, i2.delay), _close(V, i1.phase, i2.phase), _close(V, nd_.phase, r.phase),
                   sorted(i1.inputs.keys()) == sorted(i2.inputs.keys()), sorted(nd_.outputs.keys()) == sorted(r.outputs.keys()),
                   sorted(nd_.inputs.keys()) == sorted(r.inputs.keys())]  # the names under which the step function finds its inputs
            for k in i1.inputs:
                a, b = i1.inputs[k], i2.inputs[k]
                ok += [a.rate == b.rate, a.window == b.window, a.blocking == b.blocking, a.skip == b.skip, a.jitter == b.jitter, a.delay_dist is b.delay_dist,
                       a.name == b.name, a.output == b.output, _close(V, a.delay, b.delay), _close(V, a.phase, b.phase)]
        return {"from_info + connect_from_info rebuild nodes with equal infos, phases and connections": _allv(V, ok)}

    return scenario


def scen_default_delay(cfg):
    SymDist = _dist_cls()

    def scenario(V):
        from rex.node import BaseNode, Connection
        from props.c03 import _close

        q = V.grid("q99", lo=-1, hi=1)
        raised = False
        try:
            if cfg["what"] == "node":
                obj = BaseNode(name="a", rate=10, delay_dist=SymDist(qv=q))
            else:
                a, b = BaseNode(name="a", rate=10, delay=0.0), BaseNode(name="b", rate=10, delay=0.0)
                obj = Connection(b, a, blocking=False, delay_dist=SymDist(qv=q))
        except AssertionError:
            raised = True
        if raised:
            return {"a negative expected delay is rejected (only then)": q < 0, "twin:rejected": True}
        return {"default expected delay is the distribution's 99th percentile and is non-negative": (_close(V, obj.delay, q)) if not V.symbolic else _both(obj.delay == q, q >= 0), "twin:accepted": True}

    return scenario


def _both(a, b):
    from vlib.pysym import SymBool, zb
    return SymBool(z3.And(zb(a), zb(b)))


def scen_cycle(cfg):
    def scenario(V):
        from rex.node import BaseNode

        a, b, c = (BaseNode(name=x, rate=10, delay=0.01) for x in "abc")
        a.connect(b, delay=0.01)
        b.connect(c, delay=0.01)
        c.connect(a, delay=0.01, skip=cfg["skip"])
        try:
            ph = a.phase
            raised = None
        except RecursionError as e:
            raised = str(e)
        if cfg["skip"]:
            return {"a cycle broken by a skipped connection has well-defined phases": raised is None and abs(ph - 0.04) < 1e-9}
        return {"an un-skipped cycle is reported as an algebraic loop": raised is not None and "Algebraic loop" in raised}

    return scenario


SCEN = {"phase": scen_phase, "set_dist": scen_set_dist, "reconnect": scen_reconnect, "info": scen_info_roundtrip, "default": scen_default_delay, "cycle": scen_cycle}


KEY_K5 = "K5:threaded-runtime-binds-delay-distributions-at-warmup"


def _close0(V, a, b):
    from props.c03 import _close
    return _close(V, a, b)


class _JaxNoJit:
    """stands in for `jax` inside rex.asynchronous while the warm-up runs under proxy execution: compilation is not modelled (jit = identity)"""

    def __init__(self, real):
        self._real = real

    def jit(self, fn, *a, **k):
        return fn

    def devices(self, *a, **k):
        return ["cpu"]

    def __getattr__(self, n):
        return getattr(self._real, n)


def scen_async_dist(cfg):
    """'takes effect in subsequent simulation' on the threaded runtime: after warm-up, a node (connection) is given a new delay distribution
    (what set_delay does -- decided by the set_dist scenario); the next episode's reset must derive its sampling state from the distribution the
    node (the graph state's input) carries *now*, not from the one that was there at warm-up."""
    what = cfg["what"]

    def scenario(V):
        import jax.numpy as jnp
        from rex import base
        from rex.constants import Clock
        from vlib import asyncsym

        class TagDist:
            """distribution stand-in: its reset state is its own (solver-symbolic) delay, so one can read off which distribution a state came from"""

            def __init__(self, q):
                self.q = q

            def reset(self, rng):
                return self.q if V.symbolic else jnp.float32(self.q)

            @staticmethod
            def sample_pure(state, shape=None):
                class _S:
                    def block_until_ready(self):
                        return self
                return state, (_S() if V.symbolic else jnp.ones((shape,), jnp.float32) * state)

            def mean(self):
                return self.q

        q_old, q_new = V.grid("q_old", lo=0, hi=1), V.grid("q_new", lo=0, hi=1)
        V.assume(q_old < q_new)
        rec = asyncsym.Recorder()
        snd = asyncsym.mk_node(V, rec, "snd", 20)
        rcv = asyncsym.mk_node(V, rec, "rcv", 10)
        c = asyncsym.mk_conn(V, rec, snd, rcv)
        snd.node.delay_dist, rcv.node.delay_dist = TagDist(q_old), TagDist(q_old)
        win_old = rcv._step_state.inputs["snd"]
        win_old.delay_dist = TagDist(q_old)
        win_old.seq = 0

        class GS:
            step_state = {"snd": snd._step_state, "rcv": rcv._step_state}
            inputs = {"rcv": {"snd": win_old}, "snd": {}}
            rng = {"snd": ("rng", "snd"), "rcv": ("rng", "rcv")}

        import rex.asynchronous as A

        class _Rnd:
            @staticmethod
            def split(rng, num=2):
                return [("split", rng, i) for i in range(num)]

            @staticmethod
            def PRNGKey(i):
                return ("key", i) if V.symbolic else __import__("jax").random.PRNGKey(i)

        old_rnd, A.rnd = A.rnd, _Rnd
        c._jit_update_input_state = None
        try:
            if what == "node":
                snd._has_warmed_up = False
                snd.warmup(GS, jit_step=False)
                snd.node.delay_dist = TagDist(q_new)  # BaseNode.set_delay(delay_dist=...)
                new_phase = V.grid("new_phase", lo=0, hi=1)
                snd.node._phase = new_phase  # an upstream set_delay(delay=...) moved this node's phase (phase law: scen_phase)
                asyncsym.real_reset_start(V, [snd], keep_jit_reset=True)
                got = snd._dist_state
                phase_ok = _close0(V, snd._phase, new_phase)
            else:
                orig = A.update_input_state
                A.update_input_state = lambda i, *a: i
                try:
                    c.warmup.__func__  # real method
                    win_old.__class__.__getitem__ = lambda self, k: type("E", (), {"data": None})()
                    c.warmup(GS, device_step="cpu", device_dist="cpu")
                finally:
                    A.update_input_state = orig
                win_new = rcv._step_state.inputs["snd"]
                win_new.delay_dist = TagDist(q_new)  # Connection.set_delay(delay_dist=...) followed by graph.init(): the graph state's input carries the new distribution
                new_phase = V.grid("new_cphase", lo=0, hi=Fraction(1, 2))
                c.connection.phase = new_phase
                asyncsym.real_reset_start(V, [rcv], keep_jit_reset=True)
                got = c._dist_state
                phase_ok = _close0(V, c._phase, new_phase)
        finally:
            A.rnd = old_rnd
        from props.c03 import _close
        return {f"threaded runtime: after warm-up, a new delay distribution of a {what} is the one the next episode samples from": _close(V, got, q_new),
                f"threaded runtime: the next episode schedules with the {what}'s current phase (expected delays set after warm-up take effect)": phase_ok,
                "twin:warm-up completed": True}

    return scenario


def worker_async_dist(cfg, tier):
    import rex.asynchronous as A
    from props.c03 import _to_obs
    from vlib import pysym

    res, stats = pysym.run_scenario(scen_async_dist(cfg), [A], extra_patch={"rex.asynchronous": {"jax": _JaxNoJit(A.jax)}}, timeout_ms=30000)
    keymap = {r["name"]: KEY_K5 for r in res if r["name"].startswith("threaded runtime: after warm-up, a new delay distribution")}
    whatmap = {r["name"]: "the threaded runtime binds delay_dist.reset / sample_pure of the distribution present at warm-up into its jitted functions: a distribution set afterwards never reaches the simulation" for r in res}
    obs, stats = _to_obs(res, stats, cfg, "async-dist", keymap, whatmap)
    for o in obs:
        if o.verdict == "sat" and o.kind == "obligation":
            o.replayed = _replay_async_dist(cfg["what"])  # through the public API, with the real jax.jit
    if obs:
        obs[0].detail = {"stats": stats}
    return obs


def _replay_async_dist(what):
    """public API: AsyncGraph.init / warmup, then set_delay(delay_dist=...), then what the next episode's reset samples from"""
    import jax
    from distrax import Deterministic as D
    from rex.asynchronous import AsyncGraph
    from rex.constants import Clock, RealTimeFactor
    from vlib.fixtures import ProbeNode

    try:
        a = ProbeNode(name="sensor", rate=20, delay_dist=D(0.005))
        b = ProbeNode(name="agent", rate=10, delay_dist=D(0.01))
        b.connect(a, window=1, delay_dist=D(0.005))
        g = AsyncGraph(nodes={"sensor": a, "agent": b}, supervisor=b, clock=Clock.SIMULATED, real_time_factor=RealTimeFactor.FAST_AS_POSSIBLE)
        gs = g.init(jax.random.PRNGKey(1))
        g.warmup(gs)
        a.set_delay(delay_dist=D(0.02), delay=0.02)
        b.inputs["sensor"].set_delay(delay_dist=D(0.03), delay=0.03)
        gs2 = g.init(jax.random.PRNGKey(1))  # a graph state built after the change
        wa, wb = g._async_nodes["sensor"], g._async_nodes["agent"]
        for w in (wa, wb):
            w._reset(gs2, clock=Clock.SIMULATED, real_time_factor=0)
        if what == "node":
            _, smp = wa._jit_sample(wa._dist_state, shape=2)
            return abs(float(smp[0]) - 0.02) > 1e-6
        ci = wb.inputs["sensor"]
        _, smp = ci._jit_sample(ci._dist_state, shape=2)
        return abs(float(smp[0]) - 0.03) > 1e-6
    except Exception:
        return None


def worker(cfg, tier):
    import rex.node as N
    from props.c03 import _to_obs
    from vlib import pysym

    res, stats = pysym.run_scenario(SCEN[cfg["scen"]](cfg), [N], timeout_ms=30000, patch_names=("float", "round"))
    keymap, whatmap = {}, {}
    for r in res:
        if "set_delay(delay_dist=D)" in r["name"]:
            keymap[r["name"]] = "set-delay-ignores-delay_dist"
            whatmap[r["name"]] = "set_delay(delay_dist=D) keeps the old delay distribution: the argument is ignored"
    obs, stats = _to_obs(res, stats, cfg, cfg["scen"], keymap, whatmap)
    if obs:
        obs[0].detail = {"stats": stats}
    return obs


def configs(tier):
    out = []
    nmax = 3 if tier == "quick" else 4
    for n in range(2, nmax + 1):
        for es in dags(n):
            if n == 4 and len(es) > 4:
                continue
            labellings = list(itertools.product([False, True], repeat=len(es)))
            if len(labellings) > 4:
                labellings = [labellings[0], labellings[-1]] + labellings[1:-1][:: max(1, (len(labellings) - 2) // 3)][:3]
            for li, sk in enumerate(labellings):
                out.append(dict(scen="phase", n=n, edges=list(es), skips=list(sk), explicit=(li % 2 == 1) or len(es) == 1))
    out.append(dict(scen="set_dist"))
    out += [dict(scen="reconnect", shadow=False), dict(scen="reconnect", shadow=True)]
    for es in (((0, 1),), ((0, 1), (1, 2), (0, 2))):
        for explicit in (False, True):
            for shadow in (False, True):  # connections registered under a custom input name
                out.append(dict(scen="info", n=max(max(e) for e in es) + 1, edges=list(es), skips=[False] * (len(es) - 1) + [True] if len(es) > 1 else [False], blocking=len(es) > 1, explicit=explicit, shadow=shadow))
    out += [dict(scen="default", what="node"), dict(scen="default", what="connection"), dict(scen="cycle", skip=False), dict(scen="cycle", skip=True)]
    return out


def run(rep):
    import rex.node as N
    from vlib.common import pmap

    rep.technique = ("proxy-based symbolic execution of the real BaseNode/Connection phase, phase_output, set_delay, info, from_info, connect_from_info with expected delays "
                     "as solver symbols (delay distributions are pure-python stand-ins); topologies and skip labellings enumerated; z3 decides phase == longest non-skipped "
                     "path (explicit path enumeration as oracle) on every feasible path; counterexamples replayed with floats on the unpatched code")
    rep.encode(N.BaseNode.phase.fget, N.BaseNode.phase_output.fget, N.Connection.phase.fget, N.BaseNode.set_delay, N.Connection.set_delay, N.BaseNode.info.fget,
               N.Connection.info.fget, N.BaseNode.from_info.__func__, N.BaseNode.connect_from_info, N.BaseNode.__init__, N.Connection.__init__)
    cfgs = configs(rep.tier)
    rep.configs = cfgs
    rep.bounds = dict(nodes="<= 3 (4)", dag_shapes=len([c for c in cfgs if c["scen"] == "phase"]), expected_delays="symbolic on the 1us grid in [0,1]")
    rep.assumptions = ["delay distributions replaced by stand-ins exposing quantile/mean (no JAX involved)", "histories: construction (and: connect, re-connect of the same pair, set_delay -- sender and receiver views must be one connection), then set_delay on a node, on a connection, again on the same node, on the last node, on the last connection, and one call passing only a distribution (phases/infos checked after each stage)",
                       "'takes effect in subsequent simulation': (i) the runtime objects (node.delay_dist / connection.delay_dist / info) are the new ones; (ii) threaded runtime: the real "
                       "warmup / _reset / reset of the node and connection wrappers with jax.jit replaced by the identity (compilation not modelled) -- known finding K5; the compiled "
                       "runtime reads the distributions when graphs are generated (C12)"]
    obs = pmap("props.c16", "worker", cfgs, rep.tier)
    import rex.asynchronous as A
    rep.encode(A._AsyncNodeWrapper.warmup, A._AsyncNodeWrapper._reset, A._AsyncConnectionWrapper.warmup, A._AsyncConnectionWrapper.reset)
    dcfg = [dict(scen="async_dist", what="node"), dict(scen="async_dist", what="connection")]
    rep.configs = list(cfgs) + dcfg
    obs += pmap("props.c16", "worker_async_dist", dcfg, rep.tier, serial=True)
    rep.add_all(obs)


def replay(rp):
    return False
