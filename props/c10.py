"""C10 — a trainable delay set to d behaves exactly like a static delay of d (zero-order hold).

Engine B on TrainableDist.apply_delay (zoh), get_alpha, sample, window and the compiled-graph plumbing that feeds it.
"""
import time
from fractions import Fraction

import numpy as np
import z3

from vlib.common import Ob

KEY_K2 = "K2:more-than-ext-unarrived-real-entries-in-extended-window"


def _build_site(W, rate, dmin, dmax, payload, skip, interp="zoh"):
    """The real call site: partition_runner.make_update_inputs(receiver) with a trainable connection sender->receiver."""
    import jax
    import jax.numpy as jnp
    from flax.core import FrozenDict
    from rex.base import GraphState, SlotVertex, TrainableDist, Window
    from rex.partition_runner import make_update_inputs
    from vlib.fixtures import POutput, ProbeNode, ProbeNodeVec

    cls = ProbeNode if payload == "scalar" else ProbeNodeVec
    n2 = cls(name="node2", rate=rate)
    n1 = cls(name="node1", rate=rate / 2)
    dd = TrainableDist(alpha=0.5, min=float(dmin), max=float(dmax), interp=interp)
    n1.connect(n2, window=W, blocking=False, skip=skip, delay_dist=dd, delay=float(dmin))
    ext = dd.window(rate)
    n = W + ext
    S = 2 * n + 2
    shp = (S,) if payload == "scalar" else (S, 2)
    gs = GraphState(
        eps=np.int32(0), step=np.int32(0),
        rng=FrozenDict({"node1": jax.random.PRNGKey(0)}), seq=FrozenDict({"node1": np.int32(0)}),
        ts=FrozenDict({"node1": np.float32(0.0)}), params=FrozenDict({"node1": n1.init_params()}),
        state=FrozenDict({"node1": n1.init_state()}), inputs=FrozenDict({"node1": n1.init_inputs()}),
        buffer=FrozenDict({"node2": POutput(y=np.zeros(shp, np.float32))}))
    tn = SlotVertex(seq=np.int32(0), ts_start=np.float32(0), ts_end=np.float32(0),
                    windows={"node2": Window(seq=np.zeros(n, np.int32), ts_sent=np.zeros(n, np.float32), ts_recv=np.zeros(n, np.float32))},
                    run=np.bool_(True), kind="node1", generation=0)
    upd = make_update_inputs(n1)
    return upd, gs, tn, ext, n, S


def _invariant(alg, seq, ts_sent, ts_recv, ts_start, alpha, dmin, n, skip):
    """Extended window as utils.apply_window builds it on a graph generated with the minimal delay."""
    c = [alpha >= 0, alpha <= 1, ts_start >= 0, ts_start <= 10**6]
    dm = z3.RealVal(Fraction(dmin))
    for i in range(n):
        isdef = seq[i] < 0
        c.append(z3.Implies(isdef, z3.And(seq[i] == -1, ts_sent[i] == 0, ts_recv[i] == 0)))
        real_c = [ts_sent[i] >= 0, ts_recv[i] == ts_sent[i] + dm, seq[i] <= 10**6,
                  (ts_sent[i] + dm < ts_start) if skip else (ts_sent[i] + dm <= ts_start)]
        c.append(z3.Implies(z3.Not(isdef), z3.And(*real_c)))
        if i + 1 < n:
            isdef2 = seq[i + 1] < 0
            c.append(z3.Implies(isdef2, isdef))
            c.append(z3.Implies(z3.And(z3.Not(isdef), z3.Not(isdef2)),
                                z3.And(seq[i + 1] == seq[i] + 1, ts_sent[i + 1] >= ts_sent[i])))
            c.append(z3.Implies(z3.And(isdef, z3.Not(isdef2)), seq[i + 1] == 0))
    return c


def _oracle_goal(W, n, seq, ts_sent, ts_recv, data, ts_start, d, out, skip, max_m):
    """static-delay semantics: last W of (defaults ++ messages with ts_sent + d <= ts_start), ts_recv = ts_sent + d."""
    o_seq, o_sent, o_recv, o_data = out
    arrived = [z3.Or(seq[i] < 0, (ts_sent[i] + d < ts_start) if skip else (ts_sent[i] + d <= ts_start)) for i in range(n)]
    count = z3.Sum([z3.If(a, 0, 1) for a in arrived])
    goals = []
    for m in range(0, max_m + 1):
        g = []
        for j in range(W):
            src = n - m - W + j
            if src >= 0:
                isdef = seq[src] < 0
                g.append(z3.If(isdef, o_seq[j] < 0, o_seq[j] == seq[src]))
                g.append(z3.Implies(z3.Not(isdef), z3.And(o_sent[j] == ts_sent[src], o_recv[j] == ts_sent[src] + d)))
                g.append(z3.Implies(z3.Not(isdef), z3.And(*[od == dd_ for od, dd_ in zip(o_data[j], data[src])])))
                g.append(z3.Implies(isdef, z3.And(o_sent[j] == ts_sent[src], o_recv[j] == ts_recv[src])))
            else:
                # entry older than the extended window: seq_0 - k (negative => default)
                k = -src
                exp = z3.If(seq[0] < 0, z3.IntVal(-1), seq[0] - k)
                g.append(z3.If(exp < 0, o_seq[j] < 0, o_seq[j] == exp))
        goals.append(z3.Implies(count == m, z3.And(*g)))
    return z3.And(*goals), count


def _py_oracle(W, n, seq, ts_sent, ts_recv, data, ts_start, d, skip):
    arrived = [(seq[i] < 0) or ((ts_sent[i] + d < ts_start) if skip else (ts_sent[i] + d <= ts_start)) for i in range(n)]
    m = sum(0 if a else 1 for a in arrived)
    exp = []
    for j in range(W):
        src = n - m - W + j
        if src >= 0:
            if seq[src] < 0:
                exp.append(("default", None, None, None))
            else:
                exp.append((int(seq[src]), float(ts_sent[src]), float(ts_sent[src] + d), np.asarray(data[src])))
        else:
            e = -1 if seq[0] < 0 else int(seq[0]) + src
            exp.append(("default", None, None, None) if e < 0 else (e, None, None, None))
    return exp, m


def replay_case(model):
    """Run the real make_update_inputs (eager and jitted) on the concrete counterexample; True iff it violates the oracle."""
    import jax
    import jax.numpy as jnp

    W, rate, dmin, dmax, skip, payload = model["W"], model["rate"], model["min"], model["max"], model["skip"], model["payload"]
    upd, gs, tn, ext, n, S = _build_site(W, rate, dmin, dmax, payload, skip)
    seq = np.asarray(model["seq"], np.int32)
    ts_sent = np.asarray(model["ts_sent"], np.float32)
    ts_recv = np.asarray(model["ts_recv"], np.float32)
    buf = np.asarray(model["buffer"], np.float32)
    alpha, ts_start = np.float32(model["alpha"]), np.float32(model["ts_start"])
    ins0 = gs.inputs["node1"]["node2"]
    ins0 = ins0.replace(delay_dist=ins0.delay_dist.replace(alpha=jnp.float32(alpha)))
    gs = gs.replace(inputs=gs.inputs.copy({"node1": gs.inputs["node1"].copy({"node2": ins0})}),
                    buffer=gs.buffer.copy({"node2": gs.buffer["node2"].replace(y=jnp.asarray(buf))}),
                    eps=jnp.int32(model.get("eps", 0)))
    w = tn.windows["node2"].replace(seq=seq, ts_sent=ts_sent, ts_recv=ts_recv)
    tn = tn.replace(windows={"node2": w}, ts_start=ts_start, seq=np.int32(model.get("step_seq", 3)))
    data = [buf[int(sq) % S] for sq in seq]
    bad = False
    d = float(np.float32(dmin) + alpha * np.float32(dmax - dmin))
    exp, m = _py_oracle(W, n, seq, ts_sent.astype(np.float64), ts_recv, data, float(ts_start), d, skip)
    for fn in (upd, jax.jit(upd)):
        ss = fn(gs, tn)
        out = ss.inputs["node2"]
        if out.seq.shape[0] != W or int(ss.seq) != int(tn.seq) or float(ss.ts) != float(ts_start):
            bad = True
        if abs(float(out.delay_dist.alpha) - float(alpha)) > 0:
            bad = True
        for j in range(W):
            e = exp[j]
            oseq = int(out.seq[j])
            if e[0] == "default":
                if oseq >= 0:
                    bad = True
            else:
                if oseq != e[0]:
                    bad = True
                elif e[1] is not None:
                    if abs(float(out.ts_sent[j]) - e[1]) > 1e-6 or abs(float(out.ts_recv[j]) - e[2]) > 1e-6:
                        bad = True
                    if not np.allclose(np.asarray(out.data.y[j]), e[3], atol=1e-6):
                        bad = True
    return bad, m


def worker(cfg, tier):
    import jax
    from rex.base import TrainableDist
    from vlib import jx, smt

    W, rate, dmin, dmax, payload, skip = cfg["W"], cfg["rate"], cfg["min"], cfg["max"], cfg["payload"], cfg["skip"]
    obs = []
    upd, gs0, tn0, ext_code, n, S = _build_site(W, rate, dmin, dmax, payload, skip)
    # the oracle's own bound, independent of TrainableDist.window: a sender with period 1/rate has at most ceil(rate*(max-min)) send times in
    # the half-open interval (ts_start - d, ts_start - min] whose messages arrived under `min` but not under d <= max
    ext = int(-((-Fraction(rate) * (Fraction(dmax) - Fraction(dmin))) // 1))
    obs.append(Ob("window_extension_covers_the_trainable_range", "unsat" if ext_code >= ext else "sat", 0, cfg, detail=f"window()={ext_code} needed={ext}",
                  trivial=True, replayed=True, key="zoh-window-extension",
                  what=f"TrainableDist.window({rate}) = {ext_code} extra slots, but up to {ext} messages of a regular sender can be in flight within [min, max]"))
    it = jx.Interp()
    tr = jx.Traced(lambda g_, t_: upd(g_, t_), gs0, tn0)
    flat = tr.sym_inputs(it, "in")
    gs, tn = tr.in_pytree(flat)
    ss = tr.run(it, flat)
    out = ss.inputs["node2"]
    win = tn.windows["node2"]
    seq, ts_sent, ts_recv = win.seq.flat(), win.ts_sent.flat(), win.ts_recv.flat()
    bufv = gs.buffer["node2"].y.v.reshape(S, -1)
    alg = it.alg
    data = []
    for i in range(n):  # oracle's own read of the producer buffer: entry i carries buffer[seq_i mod S] (seq in [-1, S))
        row = []
        for c in range(bufv.shape[1]):
            t = bufv[S - 1][c]
            for sidx in range(S - 2, -1, -1):
                t = z3.If(seq[i] == sidx, bufv[sidx][c], t)
            row.append(t)
        data.append(row)
    alpha = gs.inputs["node1"]["node2"].delay_dist.alpha.item()
    ts_start = tn.ts_start.item()
    obs.append(Ob("zoh.exactly_window_entries", "unsat" if out.seq.shape == (W,) and out.ts_recv.shape == (W,) else "sat",
                  0, cfg, detail=f"out shape {out.seq.shape}", trivial=True, replayed=True, key="zoh-shape",
                  what="the step does not receive exactly `window` entries"))
    odv = out.data.y.v.reshape(W, -1)
    outs = (out.seq.flat(), out.ts_sent.flat(), out.ts_recv.flat(), [list(odv[j]) for j in range(W)])
    # the delay the code itself derives from alpha (real TrainableDist.sample)
    dd0 = gs0.inputs["node1"]["node2"].delay_dist
    tr_s = jx.Traced(lambda dd_: dd_.sample()[1], dd0)
    d_code = tr_s.run(it, [gs.inputs["node1"]["node2"].delay_dist.alpha]).item()
    d_spec = z3.RealVal(Fraction(float(np.float32(dmin)))) + alpha * z3.RealVal(Fraction(float(np.float32(float(dmax) - float(dmin)))))
    inv = _invariant(it.alg, seq, ts_sent, ts_recv, ts_start, alpha, dmin, n, skip)
    inv += [z3.And(sq >= -1, sq < S) for sq in seq]
    v, m_, s_ = smt.check(inv, d_code == d_spec, 30)
    obs.append(Ob("sample_is_min_plus_alpha_range", v, s_, cfg))
    # step-state plumbing of the call site: seq/ts/eps from the schedule, rng/state/params untouched, previous alpha kept
    plumb = z3.And(*[jx.eq_terms(alg, a, b, k) if jx.eq_terms(alg, a, b, k) is not True else z3.BoolVal(True) for a, b, k in [
        (ss.seq.item(), tn.seq.item(), "i"), (ss.ts.item(), ts_start, "f"), (ss.eps.item(), gs.eps.item(), "i"),
        (ss.state.x.item(), gs.state["node1"].x.item(), "f"), (ss.params.a.item(), gs.params["node1"].a.item(), "f"),
        (out.delay_dist.alpha.item(), alpha, "f")]])
    v, m_, s_ = smt.check(inv, plumb, 30)
    obs.append(Ob("callsite.stepstate_from_schedule_and_prev_delay_dist_kept", v, s_, cfg, replayed=True, key="callsite-plumbing",
                  what="make_update_inputs does not hand the step seq/ts/eps from the schedule, or changes rng/state/params/alpha"))
    goal, count = _oracle_goal(W, n, seq, ts_sent, ts_recv, data, ts_start, d_code, outs, skip, max_m=n)
    tmo = 60 if tier == "quick" else 300

    def decide(name, assumptions, expect_known):
        v, model, secs = smt.check(assumptions, goal, tmo)
        if v != "sat":
            return Ob(name, v, secs, cfg)
        # counterexample: make it float32-exact, then replay on the real code
        neg = list(assumptions) + [z3.Not(goal)]
        rv = [x for x in (ts_sent + ts_recv + [ts_start, alpha] + [c for row in bufv for c in row]) if jx.isz(x)]
        model2, den = smt.nice_model(neg, rv, lo=0, hi=16)
        model = model2 or model
        mv = lambda x: jx.model_value(model, x)
        md = dict(W=W, rate=rate, min=dmin, max=dmax, skip=skip, payload=payload, seq=[mv(x) for x in seq],
                  ts_sent=[float(mv(x)) for x in ts_sent], ts_recv=[float(mv(x)) for x in ts_recv],
                  buffer=[[float(mv(c)) for c in row] for row in bufv] if payload != "scalar" else [float(mv(row[0])) for row in bufv],
                  alpha=float(mv(alpha)), ts_start=float(mv(ts_start)), grid_den=den)
        bad, m = replay_case(md)
        md["unarrived"] = m
        md["ext"] = ext
        try:  # the class of the counterexample is read off the solver's (real-valued) model; the float32 replay may round a tie the other way
            m_model = int(str(model.eval(count, model_completion=True)))
        except Exception:  # noqa
            m_model = m
        md["unarrived_in_model"] = m_model
        if m > ext or m_model > ext:
            key = KEY_K2
            what = (f"trainable-delay window too short: {m} real entries of the extended window (ext={ext}) have not arrived under the "
                    f"configured delay, apply_delay hands the step a message that has not arrived yet (idx_max - window < 0)")
        elif skip:
            key = "T1:skip-tie"
            what = "skip connection: message arriving exactly at the step start is consumed by apply_delay but not by the static semantics"
        else:
            key = f"zoh-selection-mismatch"
            what = "apply_delay(zoh) selects a different window than a static delay of the same value"
        return Ob(name, "sat", secs, cfg, detail=f"unarrived={m} ext={ext}", model=md, key=key, what=what, replayed=bool(bad))

    a_reg = count <= ext
    obs.append(decide("zoh_equals_static.sender_regular", inv + [a_reg], False))
    ob2 = decide("zoh_equals_static.any_sender", inv, True)
    obs.append(ob2)
    # vacuity twins
    v, _, s_ = smt.satisfiable(inv + [a_reg, count == ext, seq[0] >= 0], 30)
    obs.append(Ob("twin.regular_full_window", v, s_, cfg, kind="vacuity"))
    v, _, s_ = smt.satisfiable(inv + [seq[n - 1] >= 0, seq[0] < 0], 30)
    obs.append(Ob("twin.partially_filled", v, s_, cfg, kind="vacuity"))
    return obs


def worker_alpha(cfg, tier):
    """get_alpha saturates; create round-trips; quantile/mean agree with sample."""
    import jax.numpy as jnp
    from rex.base import TrainableDist
    from vlib import jx, smt

    dmin, dmax = cfg["min"], cfg["max"]
    it = jx.Interp()
    dd = TrainableDist(alpha=jnp.float32(0.5), min=float(dmin), max=float(dmax), interp="zoh")
    tr = jx.Traced(lambda dd_, delay: dd_.get_alpha(delay), dd, np.float32(0.0))
    flat = tr.sym_inputs(it, "a")
    al = tr.run(it, flat).item()
    delay = flat[1].item()
    # constants as the jaxpr sees them: python floats become float32 literals (min, and max-min computed in double first)
    lo = Fraction(float(np.float32(dmin)))
    hi = lo + Fraction(float(np.float32(float(dmax) - float(dmin))))
    obs = []
    spec = z3.If(delay <= lo, 0, z3.If(delay >= hi, 1, (delay - lo) / (hi - lo)))
    v, _, s_ = smt.check([], al == spec, 30)
    obs.append(Ob("get_alpha_saturates_at_bounds", v, s_, cfg))
    # replacing alpha by get_alpha(delay) makes the sampled delay equal clip(delay, min, max)
    tr2 = jx.Traced(lambda dd_, delay: dd_.replace(alpha=dd_.get_alpha(delay)).sample()[1], dd, np.float32(0.0))
    f2 = tr2.sym_inputs(it, "b")
    d_out = tr2.run(it, f2).item()
    dl = f2[1].item()
    v, _, s_ = smt.check([], d_out == z3.If(dl <= lo, lo, z3.If(dl >= hi, hi, dl)), 30)
    obs.append(Ob("delay_roundtrip_saturating", v, s_, cfg))
    tr3 = jx.Traced(lambda dd_: (dd_.sample()[1], dd_.mean(), dd_.quantile(0.3), dd_.sample()[0].alpha), dd)
    f3 = tr3.sym_inputs(it, "c")
    from vlib import cg
    obs.append(cg.prove_with_replay("sample_mean_quantile_agree_alpha_unchanged", cfg, it, tr3, f3, [],
                                    lambda i, o: z3.And(o[0].item() == o[1].item(), o[1].item() == o[2].item(), o[3].item() == i[0].alpha.item()),
                                    "trainable-sample-mean-quantile", "TrainableDist.sample / mean / quantile disagree (or sampling changes alpha)", grid=(0, 1)))
    v, _, s_ = smt.satisfiable([al > 0, al < 1], 30)
    obs.append(Ob("twin.alpha_interior", v, s_, cfg, kind="vacuity"))
    return obs


def worker_end_to_end(cfg, tier):
    """generate_graphs (trainable connection -> minimal delay) -> apply_window (extended) -> apply_delay(alpha)   versus
    generate_graphs (static delay d) -> apply_window:   every receiver step must see the same window."""
    import jax
    import jax.numpy as jnp
    from rex import utils
    from rex.base import TrainableDist
    from props.c12 import capture_episode
    from vlib import cg, jx, smt

    W, ra, rb, dmin, dmax, D0 = cfg["W"], cfg["rate_a"], cfg["rate_b"], cfg["min"], cfg["max"], cfg["created_delay"]
    gcfg = dict(rates=(ra, rb), skip=False, ts_max=cfg["ts_max"], phase_b=cfg["phase_b"])
    ddT = TrainableDist.create(D0, dmin, dmax)
    nodes_T, ep_T, g0 = capture_episode(gcfg, conn_dist=ddT, window=W)
    nodes_S, ep_S, _ = capture_episode(gcfg, window=W)
    calls = cg.UFCalls()
    it = jx.Interp(callback_handler=calls.handler, while_bound=8)
    alg = it.alg
    tsm = jnp.float32(cfg["ts_max"])
    rng0 = jax.random.PRNGKey(0)
    trT, trS = jx.Traced(ep_T, rng0, g0, tsm), jx.Traced(ep_S, rng0, g0, tsm)
    flat = list(trT.sym_inputs(it, "e"))
    flat[-1] = it.from_concrete(np.asarray(tsm), np.float32)
    GT, GS = trT.run(it, flat), trS.run(it, flat)
    unwind = list(it.unwind_obligations)
    alpha = z3.Real("alpha")
    lo = Fraction(float(np.float32(dmin)))
    span = Fraction(float(np.float32(float(dmax) - float(dmin))))
    d = lo + alpha * span
    pre = [alpha >= 0, alpha <= 1]
    # the static system's communication delay is d for every message
    for c in calls.by_tag("oracle_sample_comm_ab"):
        pre += [alg.z(x, "f") == d for x in c["outs"][0].flat()]
    ext = ddT.window(ra)
    va = GT.vertices["a"]
    na = va.seq.shape[0]
    # sender regularity: at most `ext` sends within any window of length max-min
    for j in range(na - ext):
        pre.append(va.ts_end.v[j + ext] - va.ts_end.v[j] >= span)
    # windows on both sides through the real apply_window
    def windows(nodes, G):
        leaves = jax.tree_util.tree_leaves(G, is_leaf=lambda x: isinstance(x, jx.SA))
        ex = jax.tree_util.tree_map(lambda sa: np.zeros(sa.shape, np.dtype(sa.dtype)), G, is_leaf=lambda x: isinstance(x, jx.SA))
        tr = jx.Traced(lambda gr: utils.apply_window(nodes, gr), ex)
        return tr.run(it, leaves).vertices["b"]
    wT, wS = windows(nodes_T, GT), windows(nodes_S, GS)
    nb = wT.seq.shape[0]
    n = W + ext
    # apply_delay of the real TrainableDist on every receiver step's extended window
    from rex.base import InputState
    from vlib.fixtures import POutput
    ins0 = InputState.from_outputs(np.zeros(n, np.int32), np.zeros(n, np.float32), np.zeros(n, np.float32), POutput(y=np.zeros((n,), np.float32)),
                                   delay_dist=TrainableDist(alpha=jnp.float32(0.5), min=float(dmin), max=float(dmax), interp="zoh"), is_data=True)
    trd = jx.Traced(lambda i, t: i.delay_dist.apply_delay(ra, i, t), ins0, np.float32(0.0))
    conj = []
    for k in range(nb):
        win = wT.windows["a"]
        f_in = [jx.SA(win.seq.v[k], np.int32), jx.SA(win.ts_sent.v[k], np.float32), jx.SA(win.ts_recv.v[k], np.float32),
                jx.SA(np.array([z3.RealVal(0)] * n, dtype=object), np.float32), jx.SA(np.array(alpha, dtype=object).reshape(()), np.float32),
                jx.SA(np.array(wT.ts_start.v[k], dtype=object).reshape(()), np.float32)]
        o = trd.run(it, f_in)
        ws = wS.windows["a"]
        step_ok = []
        for j in range(W):
            s_seq, t_seq = alg.z(ws.seq.v[k, j], "i"), alg.z(o.seq.v[j], "i")
            step_ok.append(z3.If(s_seq < 0, t_seq < 0, z3.And(t_seq == s_seq, alg.z(o.ts_sent.v[j], "f") == alg.z(ws.ts_sent.v[k, j], "f"),
                                                               alg.z(o.ts_recv.v[j], "f") == alg.z(ws.ts_recv.v[k, j], "f"))))
        conj.append(z3.Implies(wT.seq.v[k] >= 0, z3.And(*step_ok)))
    same_vertices = jx.tree_equal(alg, GT.vertices, GS.vertices)
    obs = []
    tmo = 180 if tier == "quick" else 900
    v, m, s = smt.check(pre, z3.And(*unwind) if unwind else z3.BoolVal(True), tmo)
    obs.append(Ob("end-to-end: unwinding assertion of the graph generator's search loop", v, s, cfg, kind="unwind"))
    obs.append(Ob("end-to-end: both systems have identical vertices (same step times)", "unsat" if same_vertices is True else smt.check(pre, same_vertices if not isinstance(same_vertices, bool) else z3.BoolVal(same_vertices), tmo)[0], 0, cfg,
                  trivial=same_vertices is True))
    v, m, s = smt.check(pre, z3.And(*conj), tmo)
    o = Ob("end-to-end: generated(min delay) + extended apply_window + apply_delay(d)  ==  generated(static d) + apply_window, for every receiver step", v, s, cfg,
           key="trainable-vs-static-graph", what="a compiled system with a trainable delay set to d sees different input windows than the same system generated with a static delay d")
    if v == "sat":
        o.replayed = _replay_end_to_end(cfg, float(jx.model_value(m, alpha)))
        o.model = dict(alpha=float(jx.model_value(m, alpha)))
    obs.append(o)
    some_real = z3.Or(*[z3.And(wT.seq.v[k] >= 0, alg.z(wS.windows["a"].seq.v[k, W - 1], "i") >= 0) for k in range(nb)])
    v, m, s = smt.satisfiable(pre + [some_real, alpha > 0, alpha < 1], 120)
    obs.append(Ob("end-to-end: twin.regular sender, interior delay, some step sees a real message", v, s, cfg, kind="vacuity"))
    differs = z3.Or(*[z3.And(wT.seq.v[k] >= 0, alg.z(wS.windows["a"].seq.v[k, W - 1], "i") != alg.z(wT.windows["a"].seq.v[k, n - 1], "i")) for k in range(nb)])
    v, m, s = smt.satisfiable(pre + [differs], 120)
    obs.append(Ob("end-to-end: twin.the delay matters (static window differs from the undelayed extended window)", v, s, cfg, kind="vacuity"))
    return obs


def worker_init_inputs(cfg, tier):
    """setting the delay through init_delays/params: BaseNode.init_inputs turns the requested delay into alpha, saturating at the bounds"""
    import jax
    import jax.numpy as jnp
    from flax.core import FrozenDict
    from rex.base import GraphState, TrainableDist
    from vlib import cg, jx, smt
    from vlib.fixtures import PParams, ProbeNode

    dmin, dmax = cfg["min"], cfg["max"]
    iname = cfg.get("input_name", "node2")  # the name the connection is registered under (the documented key of init_delays)

    class Rcv(ProbeNode):
        def init_delays(self, rng=None, graph_state=None):
            return {iname: graph_state.params[self.name].a}  # the trainable delay lives in the node's params

    n2 = ProbeNode(name="node2", rate=20)
    n1 = Rcv(name="node1", rate=10)
    n1.connect(n2, window=2, blocking=False, delay_dist=TrainableDist.create(cfg["created_delay"], dmin, dmax), delay=float(dmin), name=iname)
    gs0 = GraphState(params=FrozenDict({"node1": PParams(a=jnp.float32(0.01))}))
    it = jx.Interp()
    tr = jx.Traced(lambda g_: n1.init_inputs(jax.random.PRNGKey(0), g_)[iname], gs0)
    flat = tr.sym_inputs(it, "p")
    lo = Fraction(float(np.float32(dmin)))
    hi = lo + Fraction(float(np.float32(float(dmax) - float(dmin))))

    def goal(inp, out):
        d = inp[0].params["node1"].a.item()
        want = z3.If(d <= lo, 0, z3.If(d >= hi, 1, (d - lo) / (hi - lo)))
        return z3.And(out.delay_dist.alpha.item() == want, *[x < 0 for x in out.seq.flat()])

    return [cg.prove_with_replay("init_inputs: a delay requested through init_delays/params becomes alpha = clip((d-min)/(max-min), 0, 1); the window starts with default entries",
                                 cfg, it, tr, flat, [], goal, "init-delays-alpha", "a trainable delay set through init_delays/params does not take effect (or does not saturate at the bounds)", grid=(-1, 1))]


def worker_default_delays(cfg, tier):
    """the delay set through the *distribution*: with the default init_delays, init_inputs starts the episode at the distribution's own delay (its alpha),
    whatever expected delay the connection carries for the phase shift (connect(delay=...), or a set_delay that only passed a distribution)"""
    import jax
    import jax.numpy as jnp
    from flax.core import FrozenDict
    from rex.base import GraphState, TrainableDist
    from vlib import cg, jx, smt
    from vlib.fixtures import PParams, ProbeNode

    dmin, dmax, D0 = cfg["min"], cfg["max"], cfg["created_delay"]
    n2 = ProbeNode(name="node2", rate=20)
    n1 = ProbeNode(name="node1", rate=10)
    if cfg["via"] == "connect":
        n1.connect(n2, window=2, blocking=False, delay_dist=TrainableDist.create(D0, dmin, dmax), delay=float(cfg["expected"]))
    else:  # connect with another distribution, then replace only the distribution (set_delay leaves the expected delay alone)
        n1.connect(n2, window=2, blocking=False, delay_dist=TrainableDist.create(float(cfg["expected"]), dmin, dmax))
        n1.inputs["node2"].set_delay(delay_dist=TrainableDist.create(D0, dmin, dmax))
    gs0 = GraphState(params=FrozenDict({"node1": PParams(a=jnp.float32(0.01))}))
    it = jx.Interp()
    tr = jx.Traced(lambda g_: n1.init_inputs(jax.random.PRNGKey(0), g_)["node2"], gs0)
    flat = tr.sym_inputs(it, "q")
    out = tr.run(it, flat)
    lo = Fraction(float(np.float32(dmin)))
    hi = lo + Fraction(float(np.float32(float(dmax) - float(dmin))))
    want = (Fraction(float(np.float32(D0))) - lo) / (hi - lo)
    a = out.delay_dist.alpha.item()
    tol = Fraction(1, 10**5)  # alpha is a float32 constant computed by create(); compared up to float32 rounding
    v, m, s_ = smt.check([], z3.And(a - want <= tol, want - a <= tol), 30)
    o = Ob("init_inputs with the default init_delays starts at the distribution's own delay (alpha of the connection's TrainableDist), not at the connection's expected delay",
           v, s_, cfg, key="init-delays-default", what=f"default init_delays does not start the episode at the distribution's delay {D0} (connection's expected delay: {cfg['expected']})")
    if v == "sat":
        try:
            got = float(n1.init_inputs(jax.random.PRNGKey(0), gs0)["node2"].delay_dist.alpha)
            o.replayed = abs(got - float(want)) > 1e-5
        except BaseException:  # noqa
            o.replayed = None
    return [o]


def worker_generated_min(cfg, tier):
    """graphs generated (and augmented) for a trainable connection record the MINIMAL delay, whatever delay the connection was created with"""
    import jax
    import jax.numpy as jnp
    from rex.base import TrainableDist
    from props.c12 import capture_episode
    from vlib import cg, jx, smt

    dmin, dmax, D0 = cfg["min"], cfg["max"], cfg["created_delay"]
    gcfg = dict(rates=(cfg["rate_a"], cfg["rate_b"]), skip=cfg.get("skip", False), ts_max=cfg["ts_max"], phase_b=cfg["phase_b"])
    obs = []
    for augment in (False, True):
        nodes, ep, g0 = capture_episode(gcfg, augment=augment, conn_dist=TrainableDist.create(D0, dmin, dmax), window=cfg["W"])
        calls = cg.UFCalls()
        it = jx.Interp(callback_handler=calls.handler, while_bound=8)
        tr = jx.Traced(ep, jax.random.PRNGKey(0), g0, jnp.float32(cfg["ts_max"]))
        flat = list(tr.sym_inputs(it, "e"))
        flat[-1] = it.from_concrete(np.asarray(jnp.float32(cfg["ts_max"])), np.float32)
        G = tr.run(it, flat)
        va, e = G.vertices["a"], G.edges[("a", "b")]
        lo = Fraction(float(np.float32(dmin)))
        goal = z3.And(*[z3.Implies(va.seq.v[j] >= 0, e.ts_recv.v[j] == va.ts_end.v[j] + lo) for j in range(va.seq.shape[0])])
        pre = []
        if augment:
            pre = [va.ts_end.v[j] <= 10 for j in range(va.seq.shape[0])]
        v, m, s = smt.check(pre, goal, 120)
        o = Ob(f"{'augmented' if augment else 'generated'} graph of a trainable connection records arrival = sender end + min (not the configured delay)", v, s, cfg,
               key="generated-graph-not-minimal-delay", what="graphs generated for a trainable connection are not recorded with the minimal delay, so the extended window misses messages when the delay is later lowered")
        if v == "sat":
            o.replayed = _replay_generated_min(cfg)
        obs.append(o)
    return obs


def _replay_generated_min(cfg):
    import distrax
    import jax
    from rex.artificial import generate_graphs
    from rex.base import TrainableDist
    from vlib.fixtures import ProbeNode

    try:
        a = ProbeNode(name="a", rate=cfg["rate_a"], delay_dist=distrax.Deterministic(0.01))
        b = ProbeNode(name="b", rate=cfg["rate_b"], delay_dist=distrax.Deterministic(0.01))
        b.connect(a, window=cfg["W"], delay=cfg["phase_b"], delay_dist=TrainableDist.create(cfg["created_delay"], cfg["min"], cfg["max"]))
        g = generate_graphs({"a": a, "b": b}, 0.5, rng=jax.random.PRNGKey(0))
        te, tr_, so = np.asarray(g.vertices["a"].ts_end[0]), np.asarray(g.edges[("a", "b")].ts_recv[0]), np.asarray(g.edges[("a", "b")].seq_out[0])
        return bool(any(so[j] >= 0 and abs(tr_[j] - (te[j] + cfg["min"])) > 1e-6 for j in range(len(so))))
    except BaseException:  # noqa
        return None


def _replay_end_to_end(cfg, alpha):
    """public API: compiled rollout with a trainable connection set to d through init_delays vs the static-d system"""
    import distrax
    import jax
    import jax.numpy as jnp
    from rex.artificial import generate_graphs
    from rex.base import TrainableDist
    from rex.graph import Graph
    from vlib.fixtures import ProbeNode

    try:
        W, ra, rb, dmin, dmax, D0 = cfg["W"], cfg["rate_a"], cfg["rate_b"], cfg["min"], cfg["max"], cfg["created_delay"]
        bad = False
        for a_ in sorted({alpha, 0.0, 0.3, 1.0}):
            d = float(dmin) + a_ * (float(dmax) - float(dmin))

            def build(trainable):
                class Rcv(ProbeNode):
                    def init_delays(self, rng=None, graph_state=None):
                        return {"a": d} if trainable else {}
                a = ProbeNode(name="a", rate=ra, delay_dist=distrax.Deterministic(0.2 / ra))
                b = Rcv(name="b", rate=rb, delay_dist=distrax.Deterministic(0.1 / rb))
                b.connect(a, window=W, delay=cfg["phase_b"], delay_dist=TrainableDist.create(D0, dmin, dmax) if trainable else distrax.Deterministic(d))
                nodes = {"a": a, "b": b}
                cg_ = generate_graphs(nodes, cfg["ts_max"] * 2, rng=jax.random.PRNGKey(0))
                g = Graph(nodes=nodes, supervisor=b, graphs_raw=cg_, progress_bar=False)
                gs = g.init_record(g.init(jax.random.PRNGKey(1)), inputs=True)
                gs = g.rollout(gs)
                st = gs.aux["record"].nodes["b"].steps
                return np.asarray(st.seq), np.asarray(st.inputs["a"].seq), np.asarray(st.inputs["a"].ts_recv)
            sq, t_seq, t_recv = build(True)
            _, s_seq, s_recv = build(False)
            for k in range(len(sq)):
                if sq[k] < 0:
                    continue
                for j in range(W):
                    if (s_seq[k, j] < 0) != (t_seq[k, j] < 0) or (s_seq[k, j] >= 0 and (s_seq[k, j] != t_seq[k, j] or abs(s_recv[k, j] - t_recv[k, j]) > 1e-5)):
                        bad = True
        return bad
    except BaseException:  # noqa
        return None


def configs(tier):
    cfgs = []
    Ws = [1, 2] if tier == "quick" else [1, 2, 3]
    # (rate, min, max): dyadic so that counterexamples replay exactly in float32; ext = ceil(rate*(max-min))
    # the third and later triples have a fractional rate*(max-min) (1.25, 1.75, 2.25, ...)
    # (32, 1/64, 3/128): rate*min = 0.5 and rate*max = 0.75 -- a lower bound that is not a whole number of sender periods
    rmm = [(64, 0.0, 0.03125), (64, 0.015625, 0.0625), (64, 0.0, 0.01953125), (32, 0.015625, 0.0234375)] if tier == "quick" else \
        [(64, 0.0, 0.03125), (64, 0.015625, 0.0625), (64, 0.0, 0.01953125), (64, 0.0078125, 0.03515625), (128, 0.0, 0.03125), (32, 0.0, 0.03125), (100, 0.001, 0.0235),
         (32, 0.015625, 0.0234375)]
    for W in Ws:
        for rate, mn, mx in rmm:
            for skip in (False, True):
                cfgs.append(dict(W=W, rate=rate, min=mn, max=mx, payload="scalar", skip=skip))
    cfgs.append(dict(W=2, rate=64, min=0.0, max=0.03125, payload="vec2", skip=False))
    return cfgs


def run(rep):
    from rex.base import TrainableDist
    from vlib.common import pmap

    rep.technique = ("jaxpr of the live TrainableDist.apply_delay/get_alpha/sample interpreted over z3 Real/Int terms; "
                     "obligation = output window equals the static-delay selection, decided by z3 (unsat of the negation) for all "
                     "timings, payloads, alpha, step times within the stated window shapes")
    from rex import partition_runner
    from rex.base import InputState
    rep.encode(partition_runner.make_update_inputs, TrainableDist.apply_delay, TrainableDist.sample, TrainableDist.get_alpha,
               TrainableDist.window, TrainableDist.mean, TrainableDist.quantile, InputState.from_outputs)
    cfgs = configs(rep.tier)
    rep.configs = cfgs
    rep.bounds = dict(window=sorted({c["W"] for c in cfgs}), rate_min_max=sorted({(c["rate"], c["min"], c["max"]) for c in cfgs}),
                      payload=["scalar f32", "2-vector f32"], numeric_model="reals (float32 rounding outside)")
    rep.assumptions = [
        "floats modelled as reals; integer seq as mathematical Int",
        "extended window satisfies the representation invariant of apply_window on a minimal-delay graph "
        "(defaults (-1,0,0) form a prefix, real entries consecutive seq, ts_sent non-decreasing, ts_recv = ts_sent+min <= ts_start)",
        "obligation *.sender_regular additionally assumes at most ext=ceil(rate*(max-min)) real entries unarrived under d; "
        "obligation *.any_sender does not (known finding K2)",
        "skip=True configurations use the static skip rule (consumed strictly after arrival) as oracle",
    ]
    rep.stubs = []
    obs = pmap("props.c10", "worker", cfgs, rep.tier)
    acfg = [dict(min=0.0, max=0.03125), dict(min=0.015625, max=0.0625), dict(min=0.001, max=0.0235)]
    obs += pmap("props.c10", "worker_alpha", acfg, rep.tier)
    import rex.artificial as art
    from rex import utils
    rep.encode(art._generate_graphs, utils.apply_window)
    ecfg = [dict(W=1, rate_a=20, rate_b=10, min=0.0, max=0.05, created_delay=0.04, ts_max=0.25, phase_b=0.0625)]
    if rep.tier == "thorough":
        ecfg += [dict(W=2, rate_a=20, rate_b=10, min=0.0, max=0.05, created_delay=0.02, ts_max=0.25, phase_b=0.0625),
                 dict(W=1, rate_a=20, rate_b=10, min=0.0125, max=0.0625, created_delay=0.05, ts_max=0.3, phase_b=0.0625)]
    rep.configs = cfgs + acfg + ecfg
    obs += pmap("props.c10", "worker_generated_min", ecfg, rep.tier)
    from rex.node import BaseNode
    rep.encode(BaseNode.init_inputs, BaseNode.init_delays)
    obs += pmap("props.c10", "worker_init_inputs", [dict(min=0.0, max=0.05, created_delay=0.04), dict(min=0.0125, max=0.0625, created_delay=0.05),
                                                     dict(min=0.0, max=0.05, created_delay=0.04, input_name="obs")], rep.tier)
    obs += pmap("props.c10", "worker_default_delays", [dict(min=0.0, max=0.05, created_delay=0.04, expected=0.01, via="connect"), dict(min=0.0125, max=0.0625, created_delay=0.02, expected=0.06, via="connect"),
                                                       dict(min=0.0, max=0.05, created_delay=0.04, expected=0.01, via="set_delay")], rep.tier)
    if rep.tier == "thorough":
        obs += pmap("props.c10", "worker_end_to_end", [dict(c, ts_max=0.15) for c in ecfg[:1]], rep.tier)
    rep.add_all(obs)


def replay(rp):
    bad, m = replay_case(rp["model"])
    return bad
