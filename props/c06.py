"""C06 — every scheduled step executes the user's step function exactly once.

Compiled part (engine B): a probe node whose step is an oracle callback; the interpreter records every callback occurrence
together with the conjunction of enclosing cond predicates.  Run masks, seqs and the whole state are symbolic.
Async part (engine A): see worker_async.
"""
import time

import numpy as np
import z3

from vlib.common import Ob


def _row(alg, cgm, sa, step):
    return cgm.sel(alg, sa, step)


def worker_compiled(inst, tier):
    import jax
    import jax.numpy as jnp
    from vlib import cg, fixtures, jx, smt

    obs = []
    nodes, cgr, g = cg.build(inst, node_cls=fixtures.OracleNode)
    gs0 = g.init(jax.random.PRNGKey(1))
    sup = g.supervisor.name
    per_kind, uniform, n_gen = cg.slot_order(g)
    max_step = g.max_steps  # rows = max_step + 1

    def analyse(name, fn, *extra_args, sup_expected):
        """sup_expected(step_in) -> z3 Bool/py bool: should the supervisor's step run? or None if it must not occur at all"""
        calls = cg.UFCalls()
        it = jx.Interp(callback_handler=calls.handler)
        tr = jx.Traced(fn, gs0, *extra_args)
        flat = tr.sym_inputs(it, "g")
        ins = tr.in_pytree(flat)
        gsym = ins[0]
        tr.run(it, flat)
        step_in = gsym.step.item()
        assume = [step_in >= 0, step_in <= max_step]
        alg = it.alg
        res = []
        for kind, slots in per_kind.items():
            cs = calls.by_tag(f"oracle_step_{kind}")
            if len(cs) != len(slots):
                res.append(Ob(f"{name}: one step occurrence per slot [{kind}]", "sat", 0, inst, trivial=True,
                              replayed=_replay_concrete(fn, (gs0,) + tuple(extra_args), kind, sup),
                              key=f"compiled-occurrences:{name}", detail=f"{len(cs)} step occurrences for {len(slots)} slots",
                              what=f"{name}: node {kind} has {len(cs)} step-function occurrences for {len(slots)} schedule slots"))
                continue
            conj = []
            for c, (sname, rnd) in zip(cs, slots):
                sl = gsym.timings_eps.slots[sname]
                run_s = cg.sel(alg, sl.run, step_in).item()
                seq_s = cg.sel(alg, sl.seq, step_in).item()
                ts_s = cg.sel(alg, sl.ts_start, step_in).item()
                G = alg.z(c["guard"])
                conj.append(G == alg.z(run_s))
                conj.append(z3.Implies(G, z3.And(alg.z(c["args"][0].item(), "i") == seq_s, alg.z(c["args"][1].item(), "f") == ts_s,
                                                 alg.z(c["args"][3].item(), "i") == gsym.eps.item())))
            v, m, s = smt.check(assume, z3.And(*conj), 60)
            o = Ob(f"{name}: step runs iff slot's run mask, exactly once, with the slot's seq/ts [{kind}]", v, s, inst,
                   key=f"compiled-count:{name}", what=f"{name}: node {kind}'s step function is not executed exactly once per scheduled (unmasked) slot with that slot's sequence number")
            if v == "sat":
                o.replayed = _replay_compiled(inst, name, m, tr, flat, kind)
            res.append(o)
        cs = calls.by_tag(f"oracle_step_{sup}")
        if sup_expected is None:
            ok = len(cs) == 0
            res.append(Ob(f"{name}: supervisor step function does not occur", "unsat" if ok else "sat", 0, inst, trivial=True,
                          replayed=None if ok else _replay_concrete(fn, (gs0.replace(step=jnp.int32(1)),) + tuple(extra_args), sup, sup, expect=0), key=f"compiled-sup:{name}", what=f"{name}: the supervisor's step function is executed although it must not be"))
        else:
            exp = sup_expected(gsym)
            if len(cs) != 1:
                res.append(Ob(f"{name}: supervisor step occurs once", "sat", 0, inst, trivial=True,
                              replayed=_replay_concrete(fn, (gs0.replace(step=jnp.int32(1)),) + tuple(extra_args), sup, sup, expect=1),
                              key=f"compiled-sup:{name}", detail=f"{len(cs)} occurrences",
                              what=f"{name}: {len(cs)} occurrences of the supervisor's step function (expected 1)"))
            else:
                c = cs[0]
                G = alg.z(c["guard"])
                supslot = gsym.timings_eps.slots[g._supervisor_slot]
                v, m, s = smt.check(assume, G == alg.z(exp), 60)
                res.append(Ob(f"{name}: supervisor step runs iff expected", v, s, inst, key=f"compiled-sup:{name}",
                              what=f"{name}: supervisor step execution predicate is wrong", replayed=None))
        # vacuity: some slot can run and some can be masked
        anyk = next(iter(per_kind))
        sl = gsym.timings_eps.slots[per_kind[anyk][0][0]]
        v, m, s = smt.satisfiable(assume + [alg.z(cg.sel(alg, sl.run, step_in).item())], 20)
        res.append(Ob(f"{name}: twin.slot_can_run", v, s, inst, kind="vacuity"))
        return res

    ss0 = gs0.step_state[sup]
    out0 = g.supervisor.init_output()
    obs += analyse("run", g.run, sup_expected=lambda gsym: True)
    obs += analyse("reset", lambda s: g.reset(s)[0], sup_expected=None)
    obs += analyse("step", lambda s: g.step(s)[0], sup_expected=lambda gsym: gsym.step.item() != 0)
    obs += analyse("step(override)", lambda s, ss, o: g.step(s, ss, o)[0], ss0, out0, sup_expected=None)
    # rollout (both the carry-only fori_loop and the stacking scan): every tick of the partitions it covers executes exactly once -- the loop body must
    # contain the partition runner once (values are pure, so a duplicated call changes no returned array; only the effect count sees it)
    from collections import Counter
    import numpy as onp
    n_part = min(2, max_step)
    for co in (True, False):
        calls = cg.UFCalls()
        it = jx.Interp(callback_handler=calls.handler)
        tr = jx.Traced(lambda s_, _co=co: g.rollout(s_, max_steps=n_part, carry_only=_co), gs0)
        tr.run(it, tr.concrete_inputs(it))
        got = Counter()
        for c in calls.calls:
            if c["guard"] is False or not c["tag"].startswith("oracle_step_"):
                continue
            got[(c["tag"][len("oracle_step_"):], int(c["args"][0].item()))] += 1
        want = Counter()
        for sname, sl in g.timings.slots.items():
            run_, seq_ = onp.atleast_2d(onp.asarray(sl.run)), onp.atleast_2d(onp.asarray(sl.seq))
            for p_ in range(n_part):
                if bool(run_[0, p_]):
                    want[(sl.kind, int(seq_[0, p_]))] += 1
        ok = got == want
        o = Ob(f"rollout(carry_only={co}): every tick of the covered partitions executes exactly once", "unsat" if ok else "sat", 0, inst, key="compiled-rollout-count", queries=max(1, sum(want.values())),
               detail=f"{sum(got.values())} executions for {sum(want.values())} scheduled ticks; differing: {[(k, got[k], want[k]) for k in sorted(set(got) | set(want)) if got[k] != want[k]][:4]}",
               what=f"rollout(carry_only={co}) does not execute every scheduled tick exactly once: {[(k, got[k], want[k]) for k in sorted(set(got) | set(want)) if got[k] != want[k]][:3]} (node, seq: executed, scheduled)")
        if not ok:
            o.replayed = _replay_rollout(inst, co, n_part)
        obs.append(o)
    return obs


def _replay_rollout(inst, co, n_part):
    """real rollout with the logging oracle node (eager): executions per (node, seq) against the schedule"""
    import jax
    from collections import Counter
    from vlib import cg, fixtures

    try:
        nodes, cgr, g = cg.build(inst, node_cls=fixtures.OracleNode)
        fixtures.CALL_LOG.clear()
        with jax.disable_jit():
            g.rollout(g.init(jax.random.PRNGKey(1)), max_steps=n_part, carry_only=co)
        got = Counter((t[len("oracle_step_"):], int(a[0])) for t, a in fixtures.CALL_LOG if t.startswith("oracle_step_"))
        want = Counter()
        for sname, sl in g.timings.slots.items():
            run_, seq_ = np.atleast_2d(np.asarray(sl.run)), np.atleast_2d(np.asarray(sl.seq))
            for p_ in range(n_part):
                if bool(run_[0, p_]):
                    want[(sl.kind, int(seq_[0, p_]))] += 1
        return got != want
    except BaseException:  # noqa
        return None


def _replay_concrete(fn, args, kind, sup, expect=None):
    """run the real function eagerly with the logging oracle node from every schedule row: does the number of executions of
    `kind`'s step differ from the number of unmasked slots of that kind (or from `expect`)?"""
    import jax.numpy as jnp
    from vlib import fixtures

    try:
        gs0 = args[0]
        rows = next(iter(gs0.timings_eps.slots.values())).run.shape[0]
        for step in range(1 if expect is not None else 0, max(rows - 1, 1)):
            gs = gs0.replace(step=jnp.int32(step))
            fixtures.CALL_LOG.clear()
            fn(gs, *args[1:])
            n_calls = len([1 for t, _ in fixtures.CALL_LOG if t == f"oracle_step_{kind}"])
            exp = expect
            if exp is None:
                exp = 0
                for sname, sl in gs.timings_eps.slots.items():
                    if sl.kind == kind and kind != sup and bool(np.asarray(sl.run)[step]):
                        exp += 1
            if n_calls != exp:
                return True
        return False
    except BaseException:  # noqa
        return None


def _replay_compiled(inst, name, model, tr, flat, kind):
    """run the real function eagerly on the model's state with the logging oracle node; compare call counts with run masks"""
    import jax
    from vlib import cg, fixtures

    try:
        args = cg.model_inputs(model, tr, flat)
        gs = args[0]
        step = int(np.clip(int(gs.step), 0, None))
        fixtures.CALL_LOG.clear()
        tr.fn(*args)
        n_calls = len([1 for t, _ in fixtures.CALL_LOG if t == f"oracle_step_{kind}"])
        seqs = [int(a[0]) for t, a in fixtures.CALL_LOG if t == f"oracle_step_{kind}"]
        exp, exp_seqs = 0, []
        for sname, sl in gs.timings_eps.slots.items():
            if sl.kind == kind and bool(np.asarray(sl.run)[step]):
                exp += 1
                exp_seqs.append(int(np.asarray(sl.seq)[step]))
        return n_calls != exp or sorted(seqs) != sorted(exp_seqs)
    except BaseException:  # noqa
        return None


# ---------------------------------------------------------------------------------------------------
# threaded runtime (engine A)
class FakeFuture:
    """single-threaded stand-in for concurrent.futures.Future: result() of an unset future runs the harness hook that plays the
    user thread (one fixed interleaving; thread schedules are not this property's subject)"""

    hook = None

    def __init__(self):
        self._set, self._val, self._cancelled = False, None, False

    def set_result(self, v):
        self._set, self._val = True, v

    def cancel(self):
        self._cancelled = True

    def result(self, timeout=None):
        if not self._set and not self._cancelled and FakeFuture.hook is not None:
            FakeFuture.hook(self)
        if self._cancelled:
            from concurrent.futures import CancelledError
            raise CancelledError()
        return self._val


def scen_async_nodes(cfg):
    from props import c04

    def scenario(V):
        node, rec, obs, inp = c04.build(V, cfg)
        K = cfg["nticks"]
        calls = node.node.step_calls
        seqs = [int(s.seq) for s in calls]
        states = [s.state for s in calls]
        exp_states = [("state", "n", "init")] + [("state", "n", k) for k in range(K - 1)]
        rec_seqs = [r.seq for r in node._record_steps]
        return {
            "every fired tick executes the step function exactly once, with that tick's sequence number": all(o["fired"] for o in obs) and seqs == list(range(K)),
            "the state handed to tick k is the state returned by tick k-1 (no hidden extra execution)": states == exp_states,
            "after the step the node's sequence number is tick + 1": int(node._step_state.seq) == K,
            "the recorded tick equals the sequence number the step function saw": rec_seqs == seqs,
            "the output sent to consumers is the output of that single execution": [a[0] for t_, n_, a in rec.tasks if n_ == "push_input"] == [("output", "n", k) for k in range(K)],
            "twin:ticks fired": len(calls) >= 1,
        }

    return scenario


def scen_async_supervisor(cfg):
    from fractions import Fraction
    from rex import base
    from vlib import asyncsym

    override = cfg["override"]

    def scenario(V):
        import rex.asynchronous as A
        rec = asyncsym.Recorder()
        sup = asyncsym.mk_node(V, rec, "sup", 10, phase=V.grid("phase", lo=0, hi=1))
        sync = A._Synchronizer(sup)
        sync.reset()
        g = object.__new__(A.AsyncGraph)
        g._async_nodes = {"sup": sup}
        g.supervisor = sup.node
        g._synchronizer = sync
        g._initial_step = False
        n_user = []

        def user_thread(fut):  # what the user's thread does while the supervisor's worker waits for the action
            obs_ss = sync.observation.popleft().result()

            class GS:  # minimal graph state: run_supervisor only reads the supervisor's step state
                step_state = {"sup": obs_ss}
            n_user.append(len(sup.node.step_calls))
            if override:
                g.run_supervisor(GS, obs_ss, ("user-output",))
            else:
                g.run_supervisor(GS)

        FakeFuture.hook = user_thread
        try:
            sup.q_ts_end_prev.append(asyncsym.zero(V))
            sup.q_tick.append(True)
            sup.push_scheduled_ts()
        finally:
            FakeFuture.hook = None
        calls = sup.node.step_calls
        want = 0 if override else 1
        return {
            f"supervisor step function runs {'zero times when overridden' if override else 'exactly once (in the user thread) when not overridden'}": len(calls) == want and len(sup._record_steps) == 1,
            "the synchroniser itself never runs the step function": n_user == [0],
            "sequence number advances by exactly one": int(sup._step_state.seq) == 1,
            "twin:step fired": len(sup._record_steps) == 1,
        }

    return scenario


def worker_async(cfg, tier):
    import rex.asynchronous as A
    from props.c03 import _to_obs
    from vlib import pysym

    extra = {"onp": pysym.FakeNumpy(A.onp)}
    if cfg["scen"] == "supervisor":
        extra["Future"] = FakeFuture
        scen = scen_async_supervisor(cfg)
    else:
        scen = scen_async_nodes(cfg)
    res, stats = pysym.run_scenario(scen, [A], extra_patch={"rex.asynchronous": extra})
    keymap = {r["name"]: "async-step-count" for r in res}
    whatmap = {r["name"]: f"threaded runtime: {r['name']} -- violated (the user's step function is not executed exactly once per recorded tick)" for r in res}
    obs, stats = _to_obs(res, stats, cfg, "async", keymap, whatmap)
    if obs:
        obs[0].detail = {"stats": stats}
    return obs


def async_configs(tier):
    out = []
    for sched in ("frequency", "phase"):
        for nb, nnb in ((0, 0), (1, 0), (1, 1)):
            for rs in (None, dict(rng=True, inputs=True, state=True, output=True)):
                # init_seq: the graph state handed to reset() may carry any sequence numbers (e.g. the final state of a previous episode)
                out.append(dict(scen="nodes", rate=10, scheduling=sched, advance=False, n_blocking=nb, n_nonblocking=nnb, nticks=2 if tier == "quick" else 3,
                                record_setting=rs, groups=True, init_seq=0 if rs is None else 7))
    out += [dict(scen="supervisor", override=False), dict(scen="supervisor", override=True)]
    return out


def run(rep):
    from rex import graph, partition_runner
    from vlib import cg
    from vlib.common import pmap

    rep.technique = ("compiled: jaxpr of Graph.run/reset/step interpreted with symbolic run masks; every occurrence of the probe node's step "
                     "(an oracle callback) is recorded with the conjunction of enclosing cond predicates; z3 decides guard <=> run mask and "
                     "seq/ts/eps handed to the step == the slot's")
    rep.encode(graph.Graph.run, graph.Graph.reset, graph.Graph.step, graph.Graph.run_supervisor,
               partition_runner.make_run_partition_excl_supervisor)
    insts = cg.instances(rep.tier, small=True)
    rep.configs = insts
    rep.bounds = dict(instances=len(insts), api=["run", "reset", "step", "step(override)", "rollout(carry_only=True/False, 2 partitions)"], vmap="excluded by the property")
    rep.stubs = []
    rep.assumptions = ["0 <= graph_state.step <= max_step", "user step function = arbitrary deterministic function (UF of its arguments)",
                       "effects are counted at jaxpr level: one occurrence under guard G executes iff G (lax.cond semantics, un-vmapped)",
                       "graph -> timings link (every needed tick of the raw graph has exactly one run=True cell) is decided on an enumerated instance family only (to_timings is numpy code around an external monomorphism)"]
    obs = pmap("props.c06", "worker_compiled", insts, rep.tier)
    # worker_compiled takes the ticks to execute from the compiled timings (run masks); that the timings contain every tick of the computation graph inside
    # the horizon is decided against the raw graph (ancestors of the supervisor's steps) on the instance family, ragged stacks included
    from rex import utils
    rep.encode(utils.to_timings)
    cov = insts + [dict(kind="two", rate1=10, rate2=20, window12=2, window21=1, ragged=[0.5, 0.3], mode="mcs"), dict(kind="three", rates=(10, 20, 15), windows=(2, 1, 2), ts_max=0.3, mode="generational"),
                   dict(kind="fanout", mode="mcs", ts_max=0.5, windows=[4, 1])] + cg.random_instances(rep.tier, quick_n=2)
    obs += pmap("props.c07", "worker_coverage", cov, rep.tier)
    import rex.asynchronous as A
    rep.encode(A._AsyncNodeWrapper._async_step, A._AsyncNodeWrapper.async_step, A._AsyncNodeWrapper.push_step, A._Synchronizer._async_step, A.AsyncGraph.run_supervisor)
    acfg = async_configs(rep.tier)
    rep.configs = insts + acfg
    rep.stubs += ["threaded runtime: _submit -> recorder; concurrent.futures.Future -> single-threaded stand-in whose result() plays the user thread; node.step -> counting stand-in"]
    obs += pmap("props.c06", "worker_async", acfg, rep.tier)
    rep.add_all(obs)


def replay(rp):
    return False
