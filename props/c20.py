"""C20 — the exported policy computes the same action as the trained actor.

Engine B: Policy.get_action (manual dense layers) versus the evaluation path of rex.ppo (NormalizeVec.normalize -> ActorCritic.apply
-> pi.mean()/pi.sample -> SquashState.unsquash), with ALL weights, biases, log-stds, scalings and observations symbolic.
"""
import time

import numpy as np
import z3

from vlib.common import Ob


def _setup(cfg):
    import jax
    import jax.numpy as jnp
    from rex.actor_critic import Actor, ActorCritic, Critic
    from rex.ppo import Policy
    from rex.rl import NormalizeVec, SquashState

    L, H, act, squash, norm, D, A = cfg["L"], cfg["H"], cfg["act"], cfg["squash"], cfg["norm"], cfg.get("D", 2), cfg.get("A", 1)
    actor = Actor(A, num_hidden_units=H, num_hidden_layers=L, hidden_activation=act, state_independent_std=True)
    critic = Critic(num_hidden_units=H, num_hidden_layers=L, hidden_activation=act)
    net = ActorCritic(actor=actor, critic=critic)
    params = net.init(jax.random.PRNGKey(0), jnp.zeros((D,)))
    act_scaling = SquashState(low=-jnp.ones((A,), jnp.float32), high=jnp.ones((A,), jnp.float32), squash=squash)
    obs_scaling = NormalizeVec(mean=jnp.zeros((D,), jnp.float32), var=jnp.ones((D,), jnp.float32), count=jnp.float32(1.0), return_val=None,
                               clip=jnp.float32(10.0)) if norm else None

    def exported(params, act_scaling, obs_scaling, obs, rng=None):
        pol = Policy(act_scaling=act_scaling, obs_scaling=obs_scaling, model=params["params"], hidden_activation=act,
                     output_activation="gaussian", state_independent_std=True)
        return pol.get_action(obs, rng=rng)

    def trained(params, act_scaling, obs_scaling, obs, rng=None):
        # rex.ppo.train/_evaluate_env_step: normalise, apply the network, take the mean (or sample), the env wrapper unsquashes
        x = obs_scaling.normalize(obs, clip=True, subtract_mean=True) if obs_scaling is not None else obs
        pi, _ = net.apply(params, x)
        a = pi.mean() if rng is None else pi.sample(seed=rng)
        return act_scaling.unsquash(a)

    return exported, trained, params, act_scaling, obs_scaling, D, A


def worker(cfg, tier):
    import jax
    import jax.numpy as jnp
    from vlib import cg, jx, smt

    exported, trained, params, act_scaling, obs_scaling, D, A = _setup(cfg)
    obs0 = jnp.zeros((D,), jnp.float32)

    def normal_uf(interp, eqn, args):
        # jax.random.normal(key, shape): same key => same noise (uninterpreted function of the key)
        key = args[0]
        k = key.flat()
        kz = k[0] if len(k) == 1 and jx.isz(k[0]) and k[0].sort() == jx.Key else jx.Key.mk(*[interp.alg.z(x, "i") for x in k[:2]])
        f = z3.Function("normal_noise", jx.Key, z3.IntSort(), z3.RealSort())
        av = eqn.outvars[0].aval
        arr = jx.obj_array(tuple(av.shape))
        for i, idx in enumerate(np.ndindex(*av.shape)):
            arr[idx] = f(kz, z3.IntVal(i))
        return [jx.SA(arr, av.dtype)]

    obs = []
    tmo = 120 if tier == "quick" else 600
    for with_rng in (False, True):
        it = jx.Interp(name_handlers={"_normal": normal_uf})
        args = (params, act_scaling, obs_scaling, obs0) + ((jax.random.PRNGKey(0),) if with_rng else ())
        ta, tb = jx.Traced(exported, *args), jx.Traced(trained, *args)
        flat = ta.sym_inputs(it, "p")
        oa, ob_ = ta.run(it, flat), tb.run(it, flat)
        pre = []
        v, m, s, triv = cg.check_eq(it.alg, oa, ob_, pre, tmo)
        name = "exported policy action == trained actor's " + ("sampled action (same rng => same Gaussian sample)" if with_rng else "deterministic action")
        o = Ob(name, v, s, cfg, trivial=triv, key="policy-mismatch" + ("-sample" if with_rng else ""),
               what=f"Policy.get_action differs from the trained actor (config {cfg})", detail=f"eqns {ta.n_eqns}/{tb.n_eqns}")
        if v == "sat":
            o.replayed = _replay(cfg, with_rng)
        obs.append(o)
        if not with_rng:
            v, m, s = smt.satisfiable([oa.flat()[0] != 0], 30)
            obs.append(Ob("twin.action_depends_on_inputs", v, s, cfg, kind="vacuity"))
    return obs


def _replay(cfg, with_rng):
    """numeric comparison of the two real functions on random weights/observations (incl. far out-of-range observations)"""
    import jax
    import jax.numpy as jnp

    try:
        exported, trained, params, act_scaling, obs_scaling, D, A = _setup(cfg)
        rng = np.random.RandomState(1)
        for trial in range(6):
            p = jax.tree_util.tree_map(lambda x: jnp.asarray(rng.uniform(-1, 1, x.shape), jnp.float32), params)
            asc = act_scaling.replace(low=jnp.asarray(rng.uniform(-2, -1, (A,)), jnp.float32), high=jnp.asarray(rng.uniform(1, 2, (A,)), jnp.float32))
            osc = obs_scaling.replace(mean=jnp.asarray(rng.uniform(-1, 1, (D,)), jnp.float32), var=jnp.asarray(rng.uniform(0.5, 2, (D,)), jnp.float32)) if obs_scaling is not None else None
            ob = jnp.asarray(rng.uniform(-1, 1, (D,)) * (1000.0 if trial % 2 else 1.0), jnp.float32)
            kw = dict(rng=jax.random.PRNGKey(trial)) if with_rng else {}
            a, b = exported(p, asc, osc, ob, **kw), trained(p, asc, osc, ob, **kw)
            if not np.allclose(np.asarray(a), np.asarray(b), atol=1e-5, rtol=1e-5):
                return True
        return False
    except BaseException:  # noqa
        return None


def worker_extract(cfg, tier):
    """PPOResult.policy / act_scaling / obs_scaling pick the right leaves out of the runner state"""
    import jax
    import jax.numpy as jnp
    from flax import struct
    from flax.core import FrozenDict
    from rex import base
    from rex.ppo import Config, PPOResult, RunnerState
    from rex.rl import NormalizeVec, SquashState
    from vlib import cg, jx, smt

    exported, trained, params, act_scaling, obs_scaling, D, A = _setup(dict(L=1, H=2, act="tanh", squash=True, norm=True))
    NE = 2

    @struct.dataclass
    class TS:
        params: dict

    asc = SquashState(low=jnp.zeros((NE, A), jnp.float32), high=jnp.ones((NE, A), jnp.float32), squash=True)
    es = base.GraphState(aux=FrozenDict({"norm_obs": obs_scaling, "act_scaling": asc}))
    rs = RunnerState(train_state=TS(params=params), env_state=es, last_obs=jnp.zeros((NE, D)), rng=jax.random.PRNGKey(0))
    try:
        config = Config()
    except TypeError:
        config = None
    fn = lambda r: (lambda res: (res.policy.act_scaling, res.policy.obs_scaling, res.policy.model))(PPOResult(config=config, runner_state=r, metrics={}))
    it = jx.Interp()
    tr = jx.Traced(fn, rs)
    flat = tr.sym_inputs(it, "r")
    rin = tr.in_pytree(flat)[0]

    def goal(inp, out):
        r = inp[0]
        a, o, mdl = out
        asc_in = r.env_state.aux["act_scaling"]
        e1 = jx.sa_equal(it.alg, a.low, asc_in.low[0])
        e2 = jx.sa_equal(it.alg, a.high, asc_in.high[0])
        e3 = jx.tree_equal(it.alg, o, r.env_state.aux["norm_obs"])
        e4 = jx.tree_equal(it.alg, mdl, r.train_state.params["params"])
        return z3.And(*[z3.BoolVal(e) if isinstance(e, bool) else e for e in (e1, e2, e3, e4)])

    return [cg.prove_with_replay("PPOResult.policy carries the runner state's network parameters, observation statistics and the first environment's action bounds",
                                 cfg, it, tr, flat, [], goal, "policy-extract", "PPOResult.policy does not carry the trained parameters / scalings")]


def configs(tier):
    out = []
    Ls, Hs = ([1, 2], [1, 2]) if tier == "quick" else ([1, 2, 3], [1, 2, 3])
    acts = ["tanh", "relu", "gelu", "softplus"]
    for L in Ls:
        for H in Hs:
            for act in acts:
                for squash in (True, False):
                    for norm in (True, False):
                        if tier == "quick" and not ((L, H) in ((2, 2), (1, 1)) or (squash and norm)):
                            continue
                        out.append(dict(L=L, H=H, act=act, squash=squash, norm=norm))
    return out


def run(rep):
    from rex import actor_critic, ppo, rl
    from vlib.common import pmap

    rep.technique = ("jaxprs of Policy.get_action and of the training-time evaluation path (NormalizeVec.normalize, ActorCritic.apply, pi.mean/sample, "
                     "SquashState.unsquash) interpreted on the same symbolic weights/scalings/observation; activations and tanh as uninterpreted "
                     "functions (relu exact); z3 decides equality of the resulting action terms")
    rep.encode(ppo.Policy.apply_actor, ppo.Policy.get_action, ppo.PPOResult.policy, actor_critic.Actor.__call__, rl.NormalizeVec.normalize, rl.SquashState.unsquash)
    cfgs = configs(rep.tier)
    rep.configs = cfgs
    rep.bounds = dict(depth=sorted({c["L"] for c in cfgs}), width=sorted({c["H"] for c in cfgs}), activations=["tanh", "relu", "gelu", "softplus"],
                      obs_dim=2, act_dim=1, std="state-independent (the property's quantifier)")
    rep.assumptions = ["floats as reals; exp/tanh/log1p/erf uninterpreted, so agreement must come from identical structure", "jax.random.normal = uninterpreted function of the key",
                       "STATE_INDEPENDENT_STD=False is outside the property's quantifier and not checked"]
    obs = pmap("props.c20", "worker", cfgs, rep.tier)
    obs += pmap("props.c20", "worker_extract", [dict(extract=True)], rep.tier)
    rep.add_all(obs)


def replay(rp):
    return False
