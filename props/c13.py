"""C13 — recording is faithful and never changes the execution.

Compiled part (engine B): Graph.run with aux['record'] (record-setting combinations enumerated) vs without, from the same fully
symbolic state; user step functions are uninterpreted functions of what they are handed.
Async part (engine A): see worker_async.
"""
import itertools
import time

import numpy as np
import z3

from vlib.common import Ob

FLAGS = ("params", "rng", "inputs", "state", "output")


def worker_compiled(cfg, tier):
    import jax
    from vlib import cg, fixtures, jx, smt

    inst, flags = cfg["inst"], dict(zip(FLAGS, cfg["flags"]))
    obs = []
    nodes, cgr, g = cg.build(inst, node_cls=fixtures.OracleNodeRng)  # every step advances its key; the key it was handed is its last oracle argument
    gs0 = g.init(jax.random.PRNGKey(1))
    gsr0 = g.init_record(gs0, **flags)
    sup = g.supervisor.name
    per_kind, uniform, n_gen = cg.slot_order(g)
    max_step = g.max_steps
    cA, cB = cg.UFCalls(), cg.UFCalls()
    itA, itB = jx.Interp(callback_handler=cA.handler), jx.Interp(callback_handler=cB.handler)
    alg = itB.alg
    trA, trB = jx.Traced(g.run, gs0), jx.Traced(g.run, gsr0)
    flA, flB = trA.sym_inputs(itA, "g"), trB.sym_inputs(itB, "g")
    oA, oB = trA.run(itA, flA), trB.run(itB, flB)
    gin = trB.in_pytree(flB)[0]
    step_in = gin.step.item()
    rec_in, rec_out = gin.aux["record"], oB.aux["record"]
    assume = [step_in >= 0, step_in <= max_step - 1]  # rows = max_steps+1; rollout()/run() use partitions 0..max_steps-1
    # (N) non-interference
    fields = ["step", "eps", "rng", "seq", "ts", "params", "state", "inputs", "buffer", "timings_eps"]
    v, m, s, triv = cg.check_eq(alg, {f: getattr(oA, f) for f in fields}, {f: getattr(oB, f) for f in fields}, assume, 120)
    o = Ob("run with record == run without record on every non-record leaf", v, s, cfg, trivial=triv, key="record-interferes",
           what=f"enabling recording ({flags}) changes the execution (a non-record leaf of the graph state differs)")
    if v == "sat":
        o.replayed = _replay_interference(g, gs0, gsr0, trB, flB, m)
    obs.append(o)
    # (F) faithfulness per node
    for kind, slots in list(per_kind.items()) + [(sup, [(g._supervisor_slot, n_gen)])]:
        cs = cB.by_tag(f"oracle_step_{kind}")
        steps_in, steps_out = rec_in.nodes[kind].steps, rec_out.nodes[kind].steps
        nrows = steps_out.seq.shape[0]
        conj, pre = [], []
        written = [[] for _ in range(nrows)]
        if len(cs) != len(slots):
            obs.append(Ob(f"record rows == what the step used [{kind}]", "error", 0, cfg, detail="occurrence/slot mismatch (see C06)"))
            continue
        prev_seq = None
        for c, (sname, rnd) in zip(cs, slots):
            sl = gin.timings_eps.slots[sname]
            G = alg.z(c["guard"]) if kind != sup else z3.BoolVal(True)
            seq_c = alg.z(c["args"][0].item(), "i")
            ts_c = alg.z(c["args"][1].item(), "f")
            st_c = c["args"][2].item()
            ts_end = cg.sel(alg, sl.ts_end, step_in).item()
            # schedule adequacy: running steps of one node carry distinct, in-range sequence numbers
            pre.append(z3.Implies(G, z3.And(seq_c >= 0, seq_c < nrows)))
            if kind == sup:
                pre.append(seq_c == step_in)
            if prev_seq is not None:
                pre.append(z3.Implies(z3.And(G, prev_seq[0]), seq_c > prev_seq[1]))
            prev_seq = (G, seq_c)
            row = lambda sa: cg.sel(alg, sa, seq_c)
            want = [row(steps_out.seq).item() == seq_c, row(steps_out.eps).item() == gin.eps.item(),
                    row(steps_out.ts_start).item() == ts_c, row(steps_out.ts_end).item() == ts_end,
                    row(steps_out.delay).item() == ts_end - ts_c]
            if flags["state"]:
                want.append(row(steps_out.state.x).item() == st_c)
            if flags["output"]:
                want.append(row(steps_out.output.y).item() == c["outs"][0].v[1])
            if flags["rng"]:
                e = jx.sa_equal(alg, row(steps_out.rng), c["args"][-1])  # the key the step was handed (not the one it returned)
                want.append(e if not isinstance(e, bool) else z3.BoolVal(e))
            if flags["inputs"]:
                ai = 4
                for iname in sorted(steps_out.inputs.keys()):
                    ri = steps_out.inputs[iname]
                    for fld, arg in zip((ri.seq, ri.ts_sent, ri.ts_recv, ri.data.y), c["args"][ai:ai + 4]):
                        e = jx.sa_equal(alg, row(fld), arg)
                        want.append(e if not isinstance(e, bool) else z3.BoolVal(e))
                    ai += 4
            conj.append(z3.Implies(G, z3.And(*want)))
            for r in range(nrows):
                written[r].append(z3.And(G, seq_c == r))
        # rows that no executed step owns are unchanged (=> never-executed rows keep their -1 marks by induction)
        for r in range(nrows):
            e = jx.tree_equal(alg, jax.tree_util.tree_map(lambda x: x[r], steps_out, is_leaf=lambda x: isinstance(x, jx.SA)),
                              jax.tree_util.tree_map(lambda x: x[r], steps_in, is_leaf=lambda x: isinstance(x, jx.SA)))
            if e is not True:
                conj.append(z3.Implies(z3.Not(z3.Or(*written[r])), e if not isinstance(e, bool) else z3.BoolVal(e)))
        v, m, s = smt.check(assume + pre, z3.And(*conj), 120)
        o = Ob(f"record rows == what the step used; other rows untouched [{kind}]", v, s, cfg, key=f"record-unfaithful:{kind == sup and 'supervisor' or 'node'}",
               what=f"the compiled record of node kind {'supervisor' if kind == sup else 'non-supervisor'} does not hold what the step used/produced (settings {flags})")
        if v == "sat":
            o.replayed = _replay_faithful(g, gsr0, trB, flB, m, kind, flags)
        obs.append(o)
        v, m, s = smt.satisfiable(assume + pre + [alg.z(cs[0]["guard"])], 20)
        obs.append(Ob(f"twin.recorded_step_reachable [{kind}]", v, s, cfg, kind="vacuity"))
    # params recorded once == params of the state
    if flags["params"]:
        e = jx.tree_equal(alg, {k: rec_out.nodes[k].params for k in rec_out.nodes}, {k: gin.aux["record"].nodes[k].params for k in rec_out.nodes})
        obs.append(Ob("recorded params untouched by run", "unsat" if e is True else smt.check(assume, e, 30)[0], 0, cfg, trivial=e is True))
    return obs


def worker_instance(cfg, tier):
    """whole episode of a concrete compiled instance driven by reset + max_steps x step (the gym-style API executes the last partition too):
    every executed step must own a record row holding what it was handed; payloads are uninterpreted functions."""
    import jax
    from vlib import cg, fixtures, jx

    inst = cfg["inst"]
    nodes, cgr, g = cg.build(inst, node_cls=fixtures.OracleNode)
    obs = []
    t0 = time.time()
    try:
        g.init_record(g.init(jax.random.PRNGKey(1)), params=True, rng=True, inputs=True, state=True, output=True)
        obs.append(Ob("recording can be switched on for every compiled graph (also when pruning leaves a node out of the supergraph)", "unsat", time.time() - t0, cfg,
                      trivial=True, replayed=True, key="record-init"))
    except Exception as ex:  # the real init_record raises on this instance
        obs.append(Ob("recording can be switched on for every compiled graph (also when pruning leaves a node out of the supergraph)", "sat", time.time() - t0, cfg,
                      trivial=True, replayed=True, key="record-init", detail=f"{type(ex).__name__}: {ex}",
                      what=f"Graph.init_record raises {type(ex).__name__}({ex}) on a compiled graph whose supergraph does not contain every node (default prune=True)"))
        return obs
    for eps in range(g.max_eps):
        gs0 = g.init_record(g.init(jax.random.PRNGKey(1), starting_eps=eps), params=True, rng=True, inputs=True, state=True, output=True)
        calls = cg.UFCalls()
        it = jx.Interp(callback_handler=calls.handler)

        def episode(s):
            s, _ = g.reset(s)
            for _ in range(g.max_steps):
                s, _ = g.step(s)
            return s

        tr = jx.Traced(episode, gs0)
        out = tr.run(it, tr.concrete_inputs(it))
        rec = out.aux["record"]
        bad, n_exec = [], 0
        for c in calls.calls:
            if c["guard"] is False:
                continue
            kind = c["tag"][len("oracle_step_"):]
            seq = int(c["args"][0].item())
            steps = rec.nodes[kind].steps
            n_exec += 1
            if not (0 <= seq < steps.seq.shape[0]):
                bad.append(f"{kind} step {seq} was executed but the record has only {steps.seq.shape[0]} rows")
                continue
            row_seq = steps.seq.v[seq]
            row_state = steps.state.x.v[seq]
            if not (row_seq == seq) or not _same_term(row_state, c["args"][2].item()):
                bad.append(f"{kind} step {seq}: record row holds seq={row_seq}, state={row_state}")
        o = Ob("instance: every step executed by reset + max_steps x step owns a record row with the seq/state it was handed", "unsat" if not bad else "sat", 0,
               dict(inst=inst, eps=eps), detail=f"{n_exec} executed steps; {bad[:3]}", key="record-missing-rows",
               what=f"compiled record is too short / unfaithful for a full-length episode: {bad[:2]}", queries=max(1, n_exec))
        if bad:
            o.replayed = _replay_instance_rows(inst, eps)
        obs.append(o)
    return obs


def _same_term(a, b):
    from vlib import jx
    if jx.isz(a) and jx.isz(b):
        return a.eq(b)
    if jx.isz(a) or jx.isz(b):
        return False
    return abs(float(a) - float(b)) < 1e-6


def scen_wallclock_row(cfg):
    """the wall-clock branch of the real push_step (measured end time = now(); the step may move its own start time forward by returning another
    step_state.ts): the recorded row is internally consistent and equals what the step used -- ts_start is the (possibly adjusted) time the step
    reports, delay == ts_end - ts_start, phase_overwrite is the adjustment, and consumers are told ts_end"""
    from rex import base
    from rex.constants import Clock
    from vlib import asyncsym

    def scenario(V):
        rec = asyncsym.Recorder()
        node = asyncsym.mk_node(V, rec, "n", 10, clock=Clock.WALL_CLOCK)
        out = asyncsym.mk_node(V, rec, "consumer", 10)
        oc = asyncsym.mk_conn(V, rec, node, out, blocking=False)
        t0 = V.grid("t0", lo=0, hi=5)
        adj = V.grid("adj", lo=0, hi=1) if cfg["adjust"] else 0
        tnow = V.grid("tnow", lo=0, hi=10)
        V.assume(tnow > t0 + adj)  # documented contract: the adjusted start does not exceed the current time (else push_step raises)
        node.now = lambda: tnow
        node.throttle = lambda ts: None
        orig_step = node.node.step

        def step(ss):
            new_ss, o = orig_step(ss)
            return (new_ss.replace(ts=new_ss.ts + adj) if cfg["adjust"] else new_ss), o

        node.node.step = step
        r0 = base.AsyncStepRecord(eps=0, seq=0, ts_scheduled=t0, ts_max=0.0, ts_start=t0, ts_end_prev=0.0, ts_end=None, phase=t0, phase_scheduled=0.0, phase_inputs=0.0,
                                  phase_last=0.0, sent=None, delay=None, phase_overwrite=0.0, rng=None, inputs=None, state=None, output=None)
        node.q_ts_start.append((0, t0, None, r0))
        node.push_step()
        if len(node._record_steps) != 1:
            return {"the step is recorded": False}
        r = node._record_steps[0]
        told = [a for t_, n_, a in rec.tasks if n_ == "push_input" and t_ is oc]
        from props.c03 import _allv, _close
        return {
            "wall clock: recorded ts_start is the start time the step reports (its own adjustment included), phase_overwrite the adjustment": _allv(V, [_close(V, r.ts_start, t0 + adj), _close(V, r.phase_overwrite, adj)]),
            "wall clock: recorded delay == recorded ts_end - recorded ts_start, ts_end == now() at the end of the step": _allv(V, [_close(V, r.delay, r.ts_end - r.ts_start), _close(V, r.ts_end, tnow)]),
            "wall clock: consumers are told ts_end with the step's sequence number": len(told) == 1 and bool(_close(V, told[0][1].ts, tnow)) and told[0][1].seq == 0 and bool(_close(V, r.sent.ts, tnow)),
            "twin:the step moved its start": (adj > 0) if cfg["adjust"] else True,
        }

    return scenario


def worker_wallclock(cfg, tier):
    import rex.asynchronous as A
    from props.c03 import _to_obs
    from vlib import pysym

    res, stats = pysym.run_scenario(scen_wallclock_row(cfg), [A], extra_patch={"rex.asynchronous": {"onp": pysym.FakeNumpy(A.onp)}}, timeout_ms=30000)
    obs, stats = _to_obs(res, stats, cfg, "wallclock-row")
    if obs:
        obs[0].detail = {"stats": stats}
    return obs


def _replay_instance_rows(inst, eps):
    """real run with the logging probe node: is some executed step missing from the record?"""
    import jax
    from vlib import cg, fixtures

    try:
        nodes, cgr, g = cg.build(inst, node_cls=fixtures.OracleNode)
        gs = g.init_record(g.init(jax.random.PRNGKey(1), starting_eps=eps), state=True)
        fixtures.CALL_LOG.clear()
        gs, _ = g.reset(gs)
        for _ in range(g.max_steps):
            gs, _ = g.step(gs)
        rec = gs.aux["record"]
        for tag, a in fixtures.CALL_LOG:
            kind, seq = tag[len("oracle_step_"):], int(a[0])
            sq = np.asarray(rec.nodes[kind].steps.seq)
            if seq >= len(sq) or int(sq[seq]) != seq:
                return True
        return False
    except BaseException:  # noqa
        return None


def _replay_interference(g, gs0, gsr0, trB, flB, m):
    import jax
    from vlib import cg

    try:
        gsr = cg.model_inputs(m, trB, flB)[0]
        gs = gsr.replace(aux=gs0.aux)
        a, b = g.run(gs), g.run(gsr)
        for f in ["step", "eps", "rng", "seq", "ts", "params", "state", "inputs", "buffer"]:
            la, lb = jax.tree_util.tree_leaves(getattr(a, f)), jax.tree_util.tree_leaves(getattr(b, f))
            for x, y in zip(la, lb):
                if not np.allclose(np.asarray(x), np.asarray(y), atol=1e-5, equal_nan=True):
                    return True
        return False
    except BaseException:  # noqa
        return None


def _replay_faithful(g, gsr0, trB, flB, m, kind, flags):
    """real run with the logging oracle node: the record row of every executed step must equal what the callback was handed"""
    import jax
    from vlib import cg, fixtures

    try:
        gsr = cg.model_inputs(m, trB, flB)[0]
        fixtures.CALL_LOG.clear()
        out = g.run(gsr)
        st = out.aux["record"].nodes[kind].steps
        for tag, a in list(fixtures.CALL_LOG):
            if tag != f"oracle_step_{kind}":
                continue
            seq = int(a[0])
            if not (0 <= seq < st.seq.shape[0]):
                continue
            if int(st.seq[seq]) != seq or abs(float(st.ts_start[seq]) - float(a[1])) > 1e-6:
                return True
            if flags["state"] and abs(float(st.state.x[seq]) - float(a[2])) > 1e-6:
                return True
            if flags["rng"] and not np.array_equal(np.asarray(st.rng[seq]), np.asarray(a[-1])):
                return True
            if flags["inputs"]:
                ai = 4
                for iname in sorted(st.inputs.keys()):
                    ri = st.inputs[iname]
                    for fld, arg in zip((ri.seq, ri.ts_sent, ri.ts_recv, ri.data.y), a[ai:ai + 4]):
                        if not np.allclose(np.asarray(fld[seq]), arg, atol=1e-6):
                            return True
                    ai += 4
        return False
    except BaseException:  # noqa
        return None


# ---------------------------------------------------------------------------------------------------
# threaded runtime (engine A)
def _same(V, a, b):
    """structural equality of observations that may contain proxies"""
    from vlib.pysym import Sym, eq, is_num
    import z3
    if isinstance(a, Sym) or isinstance(b, Sym):
        return [eq(a, b)]
    if is_num(a) and is_num(b) and not isinstance(a, bool):
        return [z3.BoolVal(abs(float(a) - float(b)) < 1e-9)]
    if isinstance(a, (list, tuple)) and isinstance(b, (list, tuple)):
        if len(a) != len(b):
            return [z3.BoolVal(False)]
        out = []
        for x, y in zip(a, b):
            out += _same(V, x, y)
        return out
    if isinstance(a, dict) and isinstance(b, dict):
        if sorted(a.keys()) != sorted(b.keys()):
            return [z3.BoolVal(False)]
        out = []
        for k in a:
            out += _same(V, a[k], b[k])
        return out
    if hasattr(a, "entries") and hasattr(b, "entries"):
        return _same(V, list(a.entries), list(b.entries))
    if hasattr(a, "__dataclass_fields__") and hasattr(b, "__dataclass_fields__"):
        out = []
        for f in a.__dataclass_fields__:
            out += _same(V, getattr(a, f), getattr(b, f))
        return out
    return [z3.BoolVal(a == b)]


def _conj(V, xs):
    import z3
    from vlib.pysym import SymBool
    if V.symbolic:
        return SymBool(z3.And(*xs)) if xs else True
    return all(z3.is_true(z3.simplify(x)) for x in xs)


def scen_async_record(cfg):
    from props import c04

    flags, mr = cfg["record_setting"], cfg["max_records"]

    def scenario(V):
        node, rec, obs, inp = c04.build(V, cfg)
        K = cfg["nticks"]
        calls = node.node.step_calls
        rs = node._record_steps
        n_rec = min(K, mr)
        faithful = []
        for k in range(min(n_rec, len(rs), len(calls))):
            r, ss = rs[k], calls[k]
            faithful += _same(V, r.seq, k) + _same(V, r.ts_start, ss.ts) + _same(V, r.delay, node.delays[k]) + _same(V, r.ts_end, ss.ts + node.delays[k])
            faithful += _same(V, r.rng, ss.rng if flags["rng"] else None)
            faithful += _same(V, r.state, ss.state if flags["state"] else None)
            faithful += _same(V, r.inputs, dict(ss.inputs) if flags["inputs"] else None)
            faithful += _same(V, r.output, ("output", "n", k) if flags["output"] else None)
            # the episode number: what the record says, what the step was handed and what its messages are stamped with are one and the same
            faithful += _same(V, r.eps, ss.eps) + _same(V, r.sent.eps, ss.eps)
        # the same episode with recording off
        cfg_off = dict(cfg, record_setting=dict(rng=False, inputs=False, state=False, output=False), max_records=20000)
        node2, rec2, obs2, inp2 = c04.build(V, cfg_off)
        same = []
        same += _same(V, [(int(s.seq), s.ts, s.state, s.rng, dict(s.inputs)) for s in calls], [(int(s.seq), s.ts, s.state, s.rng, dict(s.inputs)) for s in node2.node.step_calls])
        same += _same(V, [(t.node.name if hasattr(t, "node") else "conn", n, [x for x in a if not hasattr(x, "__dataclass_fields__")] + [(x.eps, x.seq, x.ts) for x in a if hasattr(x, "__dataclass_fields__")]) for t, n, a in rec.tasks],
                      [(t.node.name if hasattr(t, "node") else "conn", n, [x for x in a if not hasattr(x, "__dataclass_fields__")] + [(x.eps, x.seq, x.ts) for x in a if hasattr(x, "__dataclass_fields__")]) for t, n, a in rec2.tasks])
        same += _same(V, [node._tick, node._phase_scheduled, list(node.q_ts_end_prev), int(node._step_state.seq), node._step_state.state],
                      [node2._tick, node2._phase_scheduled, list(node2.q_ts_end_prev), int(node2._step_state.seq), node2._step_state.state])
        return {
            "record rows hold exactly the seq/times/rng/state/inputs the step was handed and the output it returned (None where a setting is off)": _conj(V, faithful) if len(rs) >= n_rec and len(calls) == K else False,
            "at most max_records rows are kept, the oldest ones; the rest is counted as discarded": len(rs) == n_rec and node._discarded == max(0, K - mr) and [r.seq for r in rs] == list(range(n_rec)),
            "recording settings / truncation change nothing but the record (steps handed, messages sent, timing state identical)": _conj(V, same),
            "twin:something recorded": len(rs) >= 1,
        }

    return scenario


def scen_async_getrecord(cfg):
    """connection.get_record keeps exactly the messages consumed by steps that were executed (seq_in <= last executed seq), in order"""
    from rex import base
    from vlib import asyncsym

    def scenario(V):
        rec = asyncsym.Recorder()
        snd = asyncsym.mk_node(V, rec, "snd", 20)
        rcv = asyncsym.mk_node(V, rec, "rcv", 10)
        c = asyncsym.mk_conn(V, rec, snd, rcv)
        c._record = base.InputRecord(info=None, messages=None)
        seq_in = cfg["seq_in"]
        c._record_messages = [base.MessageRecord(seq_out=i, seq_in=s, ts_sent=0.01 * i, ts_recv=0.01 * i + 0.005, delay=0.005) for i, s in enumerate(seq_in)]
        out = c.get_record(cfg["last"])
        kept = [int(x) for x in out.messages.seq_out]
        return {"get_record keeps exactly the messages of executed steps, in order": kept == [i for i, s in enumerate(seq_in) if s <= cfg["last"]]}

    return scenario


def scen_async_skipped(cfg):
    """stopping: once the user stops stepping, the supervisor's pending steps return `_SkippedSteps`; the record must hold the executed steps
    plus the one pending step, whatever the record settings are (in particular with output recording off)"""
    from props.c06 import FakeFuture
    from vlib import asyncsym

    def scenario(V):
        import rex.asynchronous as A
        old_future = A.Future
        A.Future = FakeFuture  # also in the float replay: a real Future would block the single thread this harness runs in
        try:
            return _scenario(V, A)
        finally:
            A.Future = old_future

    def _scenario(V, A):
        rec = asyncsym.Recorder()
        sup = asyncsym.mk_node(V, rec, "sup", 10, phase=V.grid("phase", lo=0, hi=1), record_setting=cfg["record_setting"])
        asyncsym.real_reset_start(V, [sup])
        sync = A._Synchronizer(sup)
        sync.reset()
        g = object.__new__(A.AsyncGraph)
        g._async_nodes, g.supervisor, g._synchronizer, g._initial_step = {"sup": sup}, sup.node, sync, False

        def user_thread(fut):
            obs_ss = sync.observation.popleft().result()

            class GS:
                step_state = {"sup": obs_ss}
            g.run_supervisor(GS)

        n_exec = cfg["executed"]
        FakeFuture.hook = user_thread
        try:
            for _ in range(n_exec):
                sup.q_tick.append(True)
                sup.push_scheduled_ts()
        finally:
            FakeFuture.hook = None
        sync._must_reset = True  # what stop()/reset() does to the pending action
        for _ in range(cfg["pending"]):
            sup.q_tick.append(True)
            sup.push_scheduled_ts()
        rs = sup._record_steps
        return {
            "while stopping, the record holds the executed supervisor steps plus exactly one pending step, with or without output recording":
                [r.seq for r in rs] == list(range(n_exec + 1)) and len(sup.node.step_calls) == n_exec,
            "twin:steps executed": len(sup.node.step_calls) == n_exec and n_exec >= 1,
        }

    return scenario


def worker_async(cfg, tier):
    import rex.asynchronous as A
    from props.c03 import _to_obs
    from vlib import pysym

    if cfg.get("scen") == "skipped":
        from props.c06 import FakeFuture
        res, stats = pysym.run_scenario(scen_async_skipped(cfg), [A], extra_patch={"rex.asynchronous": {"onp": pysym.FakeNumpy(A.onp), "Future": FakeFuture}})
        keymap = {r["name"]: "async-record-skipped" for r in res}
        whatmap = {r["name"]: "threaded runtime: with output recording off, every pending supervisor step after stop()/reset() is appended to the record as if it had run (rows for steps that never executed)" for r in res}
        obs, stats = _to_obs(res, stats, cfg, "async-record", keymap, whatmap)
        return obs
    if cfg.get("scen") == "selrecord":
        from props import c03
        scen = c03.scen_selection(cfg)  # every message a step consumed is recorded, however small max_records is (truncation is by step)
    else:
        scen = scen_async_getrecord(cfg) if cfg.get("scen") == "getrecord" else scen_async_record(cfg)
    res, stats = pysym.run_scenario(scen, [A], extra_patch={"rex.asynchronous": {"onp": pysym.FakeNumpy(A.onp)}})
    keymap = {r["name"]: "async-record" for r in res}
    whatmap = {r["name"]: f"threaded runtime: {r['name']} -- violated" for r in res}
    obs, stats = _to_obs(res, stats, cfg, "async-record", keymap, whatmap)
    if obs:
        obs[0].detail = {"stats": stats}
    return obs


def async_configs(tier):
    out = []
    combos = [(True, True, True, True), (False, False, False, False), (True, False, True, False), (False, True, False, True)]
    if tier == "thorough":
        combos = list(itertools.product([False, True], repeat=4))
    for fl in combos:
        for mr in ((20000, 1) if tier == "quick" else (20000, 1, 2)):
            for nb, nnb in (((1, 1),) if tier == "quick" else ((0, 0), (1, 0), (1, 1))):
                out.append(dict(rate=10, scheduling="frequency", advance=False, n_blocking=nb, n_nonblocking=nnb, nticks=2 if tier == "quick" else 3, groups=True,
                                record_setting=dict(zip(("rng", "inputs", "state", "output"), fl)), max_records=mr))
    # the graph state handed to reset() carries its own eps field (0 from init(), or a user's starting_eps), the runtime counts episodes itself
    out.append(dict(rate=10, scheduling="frequency", advance=False, n_blocking=1, n_nonblocking=1, nticks=2, groups=True,
                    record_setting=dict(rng=True, inputs=True, state=True, output=True), max_records=20000, gs_eps=3))
    out += [dict(scen="skipped", executed=2, pending=3, record_setting=dict(rng=True, inputs=True, state=True, output=o)) for o in (True, False)]
    out += [dict(scen="selrecord", nq=3, k=3, window=2, blocking=False, max_records=1), dict(scen="selrecord", nq=3, k=2, window=1, blocking=True, max_records=2, prerecorded=2),
            dict(scen="selrecord", nq=2, k=2, window=1, blocking=False, max_records=5, prerecorded=4)]
    out += [dict(scen="getrecord", seq_in=[0, 0, 1, 2, 2, 3], last=1), dict(scen="getrecord", seq_in=[0, 1, 2], last=2), dict(scen="getrecord", seq_in=[0, 1, 2], last=0)]
    return out


def configs(tier):
    from vlib import cg

    insts = cg.instances(tier, small=True)
    if tier == "quick":
        combos = [(True,) * 5, (False,) * 5, (False, True, False, True, False), (True, False, True, False, True)]
        insts = insts[:3] + insts[3:4]
    else:
        combos = list(itertools.product([False, True], repeat=5))
    return [dict(inst=i, flags=c) for i in insts for c in combos]


def run(rep):
    from rex import graph, partition_runner
    from vlib.common import pmap

    rep.technique = ("compiled: jaxpr of Graph.run traced with and without aux['record'] (settings enumerated), interpreted on the same "
                     "symbolic state with user steps as uninterpreted functions; z3 decides non-record leaves equal, record row == values "
                     "handed to/returned by the step, all other rows unchanged")
    rep.encode(graph.Graph.init_record, graph.Graph.run, graph.Graph.run_supervisor, partition_runner.make_run_partition_excl_supervisor,
               partition_runner.make_update_state)
    cfgs = configs(rep.tier)
    rep.configs = cfgs
    rep.bounds = dict(record_setting_combinations=len({c["flags"] for c in cfgs}), instances=len({str(c["inst"]) for c in cfgs}), runs=1)
    rep.assumptions = ["0 <= step <= max_steps-1 (the partitions run()/rollout() execute; the schedule's last row is executed only by the gym-style reset() + max_steps x step() drive, which the instance-level "
                       "obligation covers; at step == max_steps run() files the supervisor's output under a clipped row -- DESIGN 12.3, horizon-overrun observation)",
                       "threaded runtime: simulated clock, plus one step of the WALL_CLOCK branch of push_step with now() and the step's own ts adjustment as symbols (push_phase_shift's wall-clock branch and throttling are not executed)", "schedule adequacy: executed steps of one node carry distinct in-range sequence numbers; "
                       "the supervisor's seq equals the partition index", "user step function deterministic (UF of its arguments)"]
    obs = pmap("props.c13", "worker_compiled", cfgs, rep.tier)
    import rex.asynchronous as A
    rep.encode(A._AsyncNodeWrapper.push_phase_shift, A._AsyncNodeWrapper.push_step, A._AsyncConnectionWrapper.get_record)
    acfg = async_configs(rep.tier)
    rep.configs = cfgs + acfg
    rep.stubs = ["threaded runtime: _submit -> recorder, node.step -> opaque stand-in, log -> no-op, numpy dtype promotion -> identity"]
    obs += pmap("props.c13", "worker_async", acfg, rep.tier)
    from vlib import cg as _cg
    icfg = [dict(inst=i) for i in (_cg.instances(rep.tier, small=True)[:3] if rep.tier == "quick" else _cg.instances(rep.tier))]
    icfg.append(dict(inst=dict(kind="three", rates=(10, 25, 7), windows=(2, 1, 2), ts_max=0.5, mode="mcs")))
    icfg += [dict(inst=i) for i in _cg.random_instances(rep.tier, quick_n=2)]
    icfg += [dict(inst=dict(kind="sink", mode=m)) for m in (("mcs",) if rep.tier == "quick" else ("mcs", "generational", "topological"))]  # a node that only consumes (pruned)
    rep.configs = rep.configs + icfg
    obs += pmap("props.c13", "worker_instance", icfg, rep.tier)
    # scheduling fields of the threaded step record (ts_max, ts_end_prev, phase_scheduled = the drift the step was scheduled with, delay, header): the timing-law
    # scenario of C04 compares them with the values the law used for that very step; its "recorded ..." clauses are record-faithfulness clauses
    tl = pmap("props.c04", "worker", [dict(rate=10, scheduling=sch, advance=False, n_blocking=nb, n_nonblocking=0, nticks=3) for sch in ("frequency", "phase") for nb in (0, 1)], rep.tier)
    obs += [o for o in tl if "recorded" in o.get("name", "") or o.get("verdict") == "error"]
    obs += pmap("props.c13", "worker_wallclock", [dict(adjust=False), dict(adjust=True)], rep.tier)
    rep.add_all(obs)


def replay(rp):
    return False
