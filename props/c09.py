"""C09 — compiled execution is a pure function, independent of the driving API.

Engine B: every API composition is traced from the live Graph object, interpreted on one fully symbolic GraphState
(all node states, params, inputs, buffers, seqs, times, step, eps AND the schedule arrays timings_eps), and the resulting
GraphStates are compared leaf by leaf by z3.
"""
import time

import numpy as np
import z3

from vlib.common import Ob


def _replay_pair(fa, fb, args, tol=1e-4):
    """True iff the two real functions disagree on the concrete args (eager and jitted)."""
    import jax

    bad = False
    for wrap in (lambda f: f, jax.jit):
        ra, rb = wrap(fa)(*args), wrap(fb)(*args)
        la, lb = jax.tree_util.tree_leaves(ra), jax.tree_util.tree_leaves(rb)
        if len(la) != len(lb):
            return True
        for x, y in zip(la, lb):
            x, y = np.asarray(x), np.asarray(y)
            if x.shape != y.shape or not np.allclose(x, y, rtol=tol, atol=tol, equal_nan=True):
                bad = True
    return bad


def worker(inst, tier):
    import jax
    import jax.numpy as jnp
    from vlib import cg, jx, smt

    obs = []
    from vlib import fixtures
    nodes, cgr, g = cg.build(inst, node_cls=fixtures.ProbeNodeRng)  # every node (the supervisor too) consumes and advances its rng
    gs0 = g.init(jax.random.PRNGKey(1))
    sup = g.supervisor.name
    n = 2 if tier == "quick" else 3
    it = jx.Interp()
    alg = it.alg

    def compose_run(s, k):
        for _ in range(k):
            s = g.run(s)
        return s

    def A_run(s):
        return g.run_until_supervisor(compose_run(s, n))

    def B_resetstep(s):
        s, _ = g.reset(s)
        for _ in range(n):
            s, _ = g.step(s)
        return s

    def clip_state(s):
        s = s.replace_eps(g.timings, eps=s.eps)
        return s.replace_step(g.timings, step=s.step)

    pairs = {
        f"run^{n};run_until_supervisor == reset;step^{n}": (A_run, B_resetstep),
        f"rollout(carry_only,{n}) == run^{n} from the clipped state": (
            lambda s: g.rollout(s, max_steps=n, carry_only=True), lambda s: compose_run(clip_state(s), n)),
        f"rollout(full,{n}) stacks run^1..run^{n}": (
            lambda s: g.rollout(s, max_steps=n, carry_only=False),
            lambda s: jax.tree_util.tree_map(lambda *xs: jnp.stack(xs, 0), *[compose_run(clip_state(s), k + 1) for k in range(n)])),
        "jit(run) == run": (jax.jit(g.run), g.run),
        "jit(step) == step": (jax.jit(lambda s: g.step(s)[0]), lambda s: g.step(s)[0]),
        "step(gs, *supervisor.step(ss)) == step(gs)": (
            lambda s: g.step(s, *g.supervisor.step(s.step_state[sup]))[0], lambda s: g.step(s)[0]),
        "step returns the supervisor's step state of the new graph state": (
            lambda s: g.step(s)[1], lambda s: g.step(s)[0].step_state[sup]),
        "reset returns the supervisor's step state of the new graph state": (
            lambda s: g.reset(s)[1], lambda s: g.reset(s)[0].step_state[sup]),
        "run == run_until_supervisor;run_supervisor": (g.run, lambda s: g.run_supervisor(g.run_until_supervisor(s))),
    }
    flat = None
    trs = {}
    for name, (fa, fb) in pairs.items():
        t0 = time.time()
        try:
            ta, tb = jx.Traced(fa, gs0), jx.Traced(fb, gs0)
            if flat is None:
                flat = ta.sym_inputs(it, "g")
            oa, ob = ta.run(it, flat), tb.run(it, flat)
            v, m, s, triv = cg.check_eq(alg, oa, ob, timeout=60 if tier == "quick" else 300)
            o = Ob(name, v, s, inst, trivial=triv, detail=f"eqns {ta.n_eqns}/{tb.n_eqns}")
            if v == "sat":
                rv = [x for sa in flat if sa.kind == "f" for x in sa.flat()]
                eq = jx.tree_equal(alg, oa, ob)
                m2, den = smt.nice_model([z3.Not(eq)] if eq is not False else [], rv, lo=-8, hi=8) if eq is not False else (m, None)
                m = m2 or m
                if m is not None:
                    args = cg.model_inputs(m, ta, flat)
                    o.replayed = _replay_pair(fa, fb, args)
                    o.detail = str(cg.diff_leaves(alg, oa, ob, m)[:4])
                    o.model = {"inst": inst, "pair": name}
                o.key = f"api-composition:{name}"
                o.what = f"compiled API compositions disagree: {name}"
            obs.append(o)
        except BaseException as e:  # noqa
            import traceback
            obs.append(Ob(name, "error", time.time() - t0, inst, detail=f"{type(e).__name__}: {e} {traceback.format_exc()[-800:]}"))

    # vmap(run) on a batch of two == run on each element
    t0 = time.time()
    try:
        gsb = jax.tree_util.tree_map(lambda x: jnp.stack([x, x], 0), gs0)
        tv = jx.Traced(jax.vmap(g.run), gsb)
        fb_ = tv.sym_inputs(it, "b")
        ov = tv.run(it, fb_)
        t1 = jx.Traced(g.run, gs0)
        outs = []
        for b in range(2):
            fl = [sa[b] for sa in fb_]
            outs.append(t1.run(it, fl))
        stacked = jax.tree_util.tree_map(lambda x, y: jx.SA(np.stack([x.v, y.v], 0), x.dtype), outs[0], outs[1],
                                         is_leaf=lambda x: isinstance(x, jx.SA))
        v, m, s, triv = cg.check_eq(alg, ov, stacked, timeout=120 if tier == "quick" else 600)
        o = Ob("vmap(run)[b] == run(state[b])", v, s, inst, trivial=triv, detail=f"eqns {tv.n_eqns}")
        if v == "sat":
            args = cg.model_inputs(m, tv, fb_)
            fa = jax.vmap(g.run)
            fb2 = lambda sb: jax.tree_util.tree_map(lambda *xs: jnp.stack(xs, 0), *[g.run(jax.tree_util.tree_map(lambda x: x[i], sb)) for i in range(2)])
            o.replayed = _replay_pair(fa, fb2, args)
            o.key, o.what = "vmap-run", "vmapped run differs from per-element run"
        obs.append(o)
    except BaseException as e:  # noqa
        import traceback
        obs.append(Ob("vmap(run)[b] == run(state[b])", "error", time.time() - t0, inst, detail=f"{type(e).__name__}: {e} {traceback.format_exc()[-800:]}"))

    # clipping: every int32 eps/step selects schedule row clamp(.,0,max-1), never a wrapped one
    tm = jax.tree_util.tree_map(np.asarray, g.timings)
    max_eps = next(iter(tm.slots.values())).run.shape[-2]
    max_step = next(iter(tm.slots.values())).run.shape[-1]
    def rows_goal(out_timings, ce):
        conj = []
        l_out = jax.tree_util.tree_leaves(out_timings, is_leaf=lambda x: isinstance(x, jx.SA))
        for lo, lt in zip(l_out, l_tm):
            for r in range(max_eps):
                c = jx.sa_equal(alg, lo, it.from_concrete(lt[r], lo.dtype))
                conj.append(z3.Implies(ce == r, c if not isinstance(c, bool) else z3.BoolVal(c)))
        return conj

    def clampz(x, hi):
        return z3.If(x < 0, 0, z3.If(x > hi, hi, x))

    l_tm = jax.tree_util.tree_leaves(tm)
    te = jx.Traced(lambda s, e: s.replace_eps(g.timings, eps=e), gs0, np.int32(0))
    fe = te.sym_inputs(it, "e")

    def goal_eps(inp, out):
        ce = clampz(inp[1].item(), max_eps - 1)
        return z3.And(out.eps.item() == ce, *rows_goal(out.timings_eps, ce))

    obs.append(cg.prove_with_replay("replace_eps selects row clamp(eps) for every int eps", inst, it, te, fe, [], goal_eps,
                                    "eps-clip", "an out-of-range episode index is not clipped to the first/last episode"))
    ts_ = jx.Traced(lambda s, k: s.replace_step(g.timings, step=k).step, gs0, np.int32(0))
    fs = ts_.sym_inputs(it, "s")
    obs.append(cg.prove_with_replay("replace_step clamps for every int step", inst, it, ts_, fs, [],
                                    lambda inp, out: out.item() == clampz(inp[1].item(), max_step - 1),
                                    "step-clip", "an out-of-range step index is not clipped (e.g. wraps around)"))
    # run from a symbolic (possibly out-of-range) step == run from the clamped step
    tr_run = jx.Traced(g.run, gs0)
    fl = tr_run.sym_inputs(it, "g")
    gsym = tr_run.in_pytree(fl)[0]
    stp = gsym.step.item()
    cl = clampz(stp, max_step - 1)
    fl2 = list(fl)
    leaves_paths = [jax.tree_util.keystr(p) for p, _ in jax.tree_util.tree_flatten_with_path((gs0,))[0]]
    si = [i for i, p in enumerate(leaves_paths) if p.endswith(".step")][0]
    fl2[si] = jx.SA(cl, fl[si].dtype)
    oa, ob_ = tr_run.run(it, fl), tr_run.run(it, fl2)
    v, m, s, triv = cg.check_eq(alg, oa, ob_)
    o = Ob("run(step) == run(clamp(step)) for every int step", v, s, inst, trivial=triv, key="run-step-clip", optional=(tier == "thorough" and inst.get("kind") == "three"),
           what="run from an out-of-range step differs from run from the clipped step (index wraps instead of clipping)")
    if v == "sat":
        args = cg.model_inputs(m, tr_run, fl)
        o.replayed = _replay_pair(g.run, lambda s_: g.run(s_.replace(step=jnp.clip(s_.step, 0, max_step - 1))), args)
    obs.append(o)

    # init: params passed in are what the state carries; starting step/eps arrive clipped, schedule row is row clamp(eps)
    from flax.core import FrozenDict
    for pname, wrap in (("a dict", lambda d: d), ("a FrozenDict (e.g. graph_state.params of an earlier state)", lambda d: FrozenDict(d))):
        t0 = time.time()
        try:
            p0 = gs0.params[sup]
            ti = jx.Traced(lambda p, k, e, _w=wrap: g.init(jax.random.PRNGKey(3), params=_w({sup: p}), starting_step=k, starting_eps=e),
                           p0, np.int32(0), np.int32(0))
            fi = ti.sym_inputs(it, "i")

            def goal_init(inp, out):
                p_sym, k_sym, e_sym = inp
                ce, ck = clampz(e_sym.item(), max_eps - 1), clampz(k_sym.item(), max_step - 1)
                c = jx.tree_equal(alg, out.params[sup], p_sym)
                return z3.And(out.eps.item() == ce, out.step.item() == ck, c if not isinstance(c, bool) else z3.BoolVal(c),
                              *rows_goal(out.timings_eps, ce))

            obs.append(cg.prove_with_replay(f"init: params override given as {pname}, clipped starting step/eps, schedule row of the clipped episode",
                                            inst, it, ti, fi, [], goal_init, "init",
                                            "Graph.init does not hand the given params / clipped starting indices / that episode's schedule to the state"))
        except BaseException as e:  # noqa
            import traceback
            obs.append(Ob("init", "error", time.time() - t0, inst, detail=f"{type(e).__name__}: {e} {traceback.format_exc()[-800:]}"))
    # reachability twin: the state space is unconstrained, outputs depend on inputs
    o_run = tr_run.run(it, fl)
    v, m, s = smt.satisfiable([o_run.state[sup].x.item() != gsym.state[sup].x.item()], 30)
    obs.append(Ob("twin.run_changes_supervisor_state", v, s, inst, kind="vacuity"))
    return obs


def run(rep):
    from rex import base, graph, partition_runner
    from vlib import cg
    from vlib.common import pmap

    rep.technique = ("jaxprs of the live Graph.run/reset/step/rollout/run_supervisor/init compositions interpreted on one fully symbolic "
                     "GraphState (incl. the schedule arrays); z3 decides leaf-wise equality of the resulting states")
    rep.encode(graph.Graph.run, graph.Graph.reset, graph.Graph.step, graph.Graph.rollout, graph.Graph.run_supervisor,
               graph.Graph.run_until_supervisor, graph.Graph.init, partition_runner.make_run_partition_excl_supervisor,
               partition_runner.make_update_inputs, partition_runner.make_update_state, partition_runner.update_output,
               base.GraphState.replace_eps, base.GraphState.replace_step, base.GraphState.replace_step_states)
    insts = cg.instances(rep.tier)
    rep.configs = insts
    rep.bounds = dict(n_steps=2 if rep.tier == "quick" else 3, vmap_batch=2, instances=len(insts),
                      note="graph instances are enumerated (built by generate_graphs + Graph); everything inside the GraphState is symbolic")
    rep.assumptions = ["floats as reals, ints as mathematical integers (|values| unconstrained)",
                       "probe nodes (vlib.fixtures.ProbeNode): deterministic arithmetic step depending on every field of the step state",
                       "XLA lowering not examined: the jaxpr is taken as the meaning of jit-compiled code"]
    obs = pmap("props.c09", "worker", insts, rep.tier)
    rep.add_all(obs)


def replay(rp):
    return False
