"""C07 — (restricted claim) windows carried by the compiled schedule; non-ancestor attachment; executor order.

Clause W (engine B): utils.apply_window on a symbolic computation graph: the window of receiver step k is the last
window+ext messages with 0 <= seq_in <= k, oldest first, padded in front with (-1, 0, 0); ts_sent = sender's ts_end[seq_out].
Clause A (engine A): utils.to_connected_graph attaches every non-ancestor to the first supervisor vertex starting at/after its end.
Outside: that Gs_monomorphism (external supergraph search) schedules every vertex once and producers first.
"""
import time
from fractions import Fraction

import numpy as np
import z3

from vlib.common import Ob


def _build(W, N1, N2, E, trainable, rate1=20):
    import jax.numpy as jnp
    from distrax import Deterministic
    from rex.base import Edge, Graph, TrainableDist, Vertex
    from vlib.fixtures import ProbeNode

    n1 = ProbeNode(name="snd", rate=rate1, delay_dist=Deterministic(0.01))
    n2 = ProbeNode(name="rcv", rate=10, delay_dist=Deterministic(0.01))
    # trainable range 0.075 s: ext = ceil(rate_sender * 0.075) = 2 at the sender's 20 Hz, but 1 at the receiver's 10 Hz -- the extension is by the *sender's* rate
    dd = TrainableDist.create(0.01, 0.0, 0.075) if trainable else Deterministic(0.01)
    n2.connect(n1, window=W, blocking=False, delay_dist=dd)
    nodes = {"snd": n1, "rcv": n2}
    z = lambda n, dt: np.zeros(n, dt)
    graph = Graph(vertices={"snd": Vertex(seq=z(N1, np.int32), ts_start=z(N1, np.float32), ts_end=z(N1, np.float32)),
                            "rcv": Vertex(seq=z(N2, np.int32), ts_start=z(N2, np.float32), ts_end=z(N2, np.float32))},
                  edges={("snd", "rcv"): Edge(seq_out=z(E, np.int32), seq_in=z(E, np.int32), ts_recv=z(E, np.float32))})
    from fractions import Fraction
    ext = int(-((-Fraction(rate1) * Fraction(75, 1000)) // 1)) if trainable else 0  # the oracle's own count: messages a sender of this rate can have in flight within [min, max]
    return nodes, graph, W + ext


def worker_window(cfg, tier):
    import jax
    from rex import utils
    from vlib import cg, jx, smt

    W, N1, N2, E, trainable = cfg["W"], cfg["N1"], cfg["N2"], cfg["E"], cfg["trainable"]
    nodes, graph0, Wtot = _build(W, N1, N2, E, trainable)
    it = jx.Interp()
    alg = it.alg
    tr = jx.Traced(lambda gr: utils.apply_window(nodes, gr), graph0)
    flat = tr.sym_inputs(it, "G")

    def invariant(gr):
        c = []
        vs, vr, e = gr.vertices["snd"], gr.vertices["rcv"], gr.edges[("snd", "rcv")]
        for v, n in ((vs, N1), (vr, N2)):
            sq = v.seq.flat()
            for i in range(n):
                c.append(z3.Or(sq[i] == i, sq[i] == -1))
                if i + 1 < n:
                    c.append(z3.Implies(sq[i] == -1, sq[i + 1] == -1))
            c += [z3.And(t >= -1, t <= 10**6) for t in v.ts_start.flat() + v.ts_end.flat()]
        so, si, tr_ = e.seq_out.flat(), e.seq_in.flat(), e.ts_recv.flat()
        for k in range(E):
            # messages are numbered consecutively; padding (-1) only at the tail; an edge never names a sender vertex that does not exist
            c.append(z3.Or(so[k] == k, so[k] == -1))
            c.append(z3.Implies(so[k] >= 0, z3.And(so[k] < N1, vs.seq.flat()[min(k, N1 - 1)] == k if k < N1 else False)))
            c.append(z3.And(si[k] >= -1, si[k] < N2))
            c.append(z3.Implies(so[k] == -1, si[k] == -1))
            if k + 1 < E:
                c.append(z3.Implies(so[k] == -1, so[k + 1] == -1))
                c.append(z3.Implies(si[k] == -1, si[k + 1] == -1))  # unreceived messages form the tail
                c.append(z3.Implies(si[k + 1] >= 0, si[k + 1] >= si[k]))  # consumed in order
            c.append(z3.And(tr_[k] >= -1, tr_[k] <= 10**6))
        return c

    def goal(inp, out):
        gr = inp[0]
        vs, vr, e = gr.vertices["snd"], gr.vertices["rcv"], gr.edges[("snd", "rcv")]
        so, si, trv = e.seq_out.flat(), e.seq_in.flat(), e.ts_recv.flat()
        te = vs.ts_end.flat()
        win = out.vertices["rcv"].windows["snd"]
        conj = []
        # vertex fields are passed through
        for a, b in ((out.vertices["rcv"].seq, vr.seq), (out.vertices["rcv"].ts_start, vr.ts_start), (out.vertices["rcv"].ts_end, vr.ts_end),
                     (out.vertices["snd"].seq, vs.seq), (out.vertices["snd"].ts_end, vs.ts_end)):
            eq = jx.sa_equal(alg, a, b)
            conj.append(eq if not isinstance(eq, bool) else z3.BoolVal(eq))
        for k in range(N2):
            sk = vr.seq.flat()[k]
            elig = [z3.And(so[j] >= 0, si[j] >= 0, si[j] <= sk) for j in range(E)]
            cnt = z3.Sum([z3.If(x, 1, 0) for x in elig])
            for c in range(E + 1):
                want = []
                for j in range(Wtot):
                    src = c - Wtot + j
                    o_seq, o_sent, o_recv = win.seq.v[k, j], win.ts_sent.v[k, j], win.ts_recv.v[k, j]
                    if src < 0:
                        want += [o_seq == -1, o_sent == 0, o_recv == 0]
                    else:
                        ts_sent = te[N1 - 1]
                        for q in range(N1 - 2, -1, -1):
                            ts_sent = z3.If(so[src] == q, te[q], ts_sent)
                        want += [o_seq == so[src], o_recv == trv[src], o_sent == ts_sent]
                conj.append(z3.Implies(z3.And(sk >= 0, cnt == c), z3.And(*want)))
        return z3.And(*conj)

    gin = tr.in_pytree(flat)[0]
    inv = invariant(gin)
    tmo = 120 if tier == "quick" else 600
    try:
        got_len = tr.run(it, flat).vertices["rcv"].windows["snd"].seq.v.shape[-1]
    except Exception as e_:  # noqa
        got_len = f"error: {e_!r}"[:120]
    if got_len != Wtot:
        return [Ob("apply_window: every step's window has window + ceil(rate_sender*(max-min)) entries", "sat", 0, cfg, detail=f"window length {got_len}, expected {Wtot}", key="apply-window-length",
                   what=f"apply_window hands the receiver windows of {got_len} entries; window + extension for the sender's rate is {Wtot}", replayed=True)]
    obs_len = [Ob("apply_window: every step's window has window + ceil(rate_sender*(max-min)) entries", "unsat", 0, cfg, trivial=True, key="apply-window-length", replayed=True)]
    o = cg.prove_with_replay("apply_window: window of step k = last window+ext messages with 0<=seq_in<=k, oldest first, (-1,0,0)-padded",
                             cfg, it, tr, flat, inv, goal, "apply-window",
                             "apply_window hands a receiver step a window that is not the last `window` consumed messages (oldest first, default-padded)",
                             timeout=tmo, grid=(-1, 8))
    obs = obs_len + [o]
    e = gin.edges[("snd", "rcv")]
    v, m, s = smt.satisfiable(inv + [e.seq_in.flat()[min(E, N1) - 1] >= 1, gin.vertices["rcv"].seq.flat()[N2 - 1] >= 0], 30)  # last edge that can be real (edges beyond the sender's vertices are padding)
    obs.append(Ob("twin.full_graph_reachable", v, s, cfg, kind="vacuity"))
    v, m, s = smt.satisfiable(inv + [e.seq_out.flat()[E - 1] == -1, e.seq_out.flat()[0] == 0], 30)
    obs.append(Ob("twin.padded_edges_reachable", v, s, cfg, kind="vacuity"))
    return obs


def worker_order(inst, tier):
    """executor: step increments by exactly one (clipped), eps/timings untouched by run"""
    import jax
    from vlib import cg, jx, smt

    nodes, cgr, g = cg.build(inst)
    gs0 = g.init(jax.random.PRNGKey(1))
    it = jx.Interp()
    tr = jx.Traced(g.run_until_supervisor, gs0)
    flat = tr.sym_inputs(it, "g")
    ms = g.max_steps

    def goal(inp, out):
        st = inp[0].step.item()
        cl = z3.If(st < 0, 0, z3.If(st > ms, ms, st))
        e = jx.tree_equal(it.alg, out.timings_eps, inp[0].timings_eps)
        return z3.And(out.step.item() == cl + 1, out.eps.item() == inp[0].eps.item(), e if not isinstance(e, bool) else z3.BoolVal(e))

    return [cg.prove_with_replay("partition p advances step by one from the clipped step; schedule and episode untouched", inst, it, tr, flat, [],
                                 goal, "step-increment", "running a partition does not advance the step counter by exactly one")]


def worker_exec_order(inst, tier):
    """instance level (concrete schedule, uninterpreted step functions): the compiled rollout executes consecutive steps of every node in
    sequence order 0,1,2,... and every producer of a window entry strictly before its consumer"""
    import jax
    from vlib import cg, fixtures, jx

    nodes, cgr, g = cg.build(inst, node_cls=fixtures.OracleNode)
    obs = []
    # horizon: the schedule has one partition per supervisor step that exists in *every* episode of the (possibly ragged) stack, and the supervisor's
    # step p closes partition p in every episode
    import numpy as onp
    sup = g.supervisor.name
    sseq = onp.atleast_2d(onp.asarray(cgr.vertices[sup].seq))
    horizon = int((sseq >= 0).sum(axis=-1).min())
    sl = g.timings.slots[g._supervisor_slot]
    run_, seq_ = onp.atleast_2d(onp.asarray(sl.run)), onp.atleast_2d(onp.asarray(sl.seq))
    bad = []
    if run_.shape[-1] != horizon:
        bad.append(f"schedule has {run_.shape[-1]} partitions; the shortest episode has {horizon} supervisor steps")
    for e in range(run_.shape[0]):
        for p_ in range(run_.shape[1]):
            if not (bool(run_[e, p_]) and int(seq_[e, p_]) == p_):
                bad.append(f"episode {e} partition {p_}: supervisor slot run={bool(run_[e, p_])} seq={int(seq_[e, p_])}")
    o = Ob("instance: the schedule has one partition per supervisor step present in every episode; supervisor step p closes partition p in every episode",
           "unsat" if not bad else "sat", 0, dict(inst=inst), detail=f"{run_.shape}; {bad[:3]}", key="horizon", queries=int(run_.size),
           what=f"compiled schedule horizon / supervisor closing steps wrong: {bad[:2]}")
    if bad:
        o.replayed = True  # read off the real Graph's timings (no model in between)
    obs.append(o)
    for eps in range(g.max_eps):
        gs0 = g.init(jax.random.PRNGKey(1), starting_eps=eps)
        calls = cg.UFCalls()
        it = jx.Interp(callback_handler=calls.handler)
        tr = jx.Traced(lambda s: g.rollout(s), gs0)
        tr.run(it, tr.concrete_inputs(it))
        seen = {}
        bad = []
        order = []
        for c in calls.calls:
            if c["guard"] is False:
                continue
            kind = c["tag"][len("oracle_step_"):]
            seq = int(c["args"][0].item())
            if seq != len(seen.setdefault(kind, [])):
                bad.append(f"{kind}: step seq={seq} was the {len(seen[kind])}-th executed step of that node")
            ai = 4
            for p in sorted(nodes[kind].inputs.keys()):
                pname = nodes[kind].inputs[p].output_node.name
                for w in c["args"][ai].flat():
                    if int(w) >= 0 and int(w) not in seen.get(pname, []):
                        bad.append(f"{kind} step {seq} reads message {int(w)} of {pname} which has not been executed yet")
                ai += 4
            seen[kind].append(seq)
        n_exec = sum(len(v) for v in seen.values())
        o = Ob("instance: steps of a node execute in sequence order and every producer in a step's window runs strictly before that step", "unsat" if not bad else "sat", 0,
               dict(inst=inst, eps=eps), detail=f"{n_exec} executed steps; {bad[:3]}", key="exec-order", queries=max(1, n_exec),
               what=f"compiled rollout executes steps out of dependency/sequence order: {bad[:2]}")
        if bad:
            o.replayed = _replay_exec_order(inst, eps)
        obs.append(o)
    return obs


def worker_coverage(inst, tier):
    """instance level, oracle = the raw computation graph (NOT the compiled timings): every vertex a supervisor step inside the horizon depends on
    (ancestors through message edges and the node's own previous step) is scheduled exactly once, with its own sequence number and times"""
    import networkx as nx
    import numpy as onp
    from vlib import cg, fixtures

    nodes, cgr, g = cg.build(inst, node_cls=fixtures.OracleNode)
    sup = g.supervisor.name
    V = {k: {f: onp.atleast_2d(onp.asarray(getattr(v, f))) for f in ("seq", "ts_start", "ts_end")} for k, v in cgr.vertices.items()}
    Ed = {k: {f: onp.atleast_2d(onp.asarray(getattr(e, f))) for f in ("seq_out", "seq_in")} for k, e in cgr.edges.items()}
    n_eps = V[sup]["seq"].shape[0]
    P = int((V[sup]["seq"] >= 0).sum(axis=-1).min())
    slots = {n: (sl.kind, onp.atleast_2d(onp.asarray(sl.run)), onp.atleast_2d(onp.asarray(sl.seq)), onp.atleast_2d(onp.asarray(sl.ts_start)), onp.atleast_2d(onp.asarray(sl.ts_end)))
             for n, sl in g.timings.slots.items()}
    bad, n_needed = [], 0
    for e in range(n_eps):
        G = nx.DiGraph()
        for k, v in V.items():
            seqs = [int(x) for x in v["seq"][e] if x >= 0]
            G.add_nodes_from((k, q) for q in seqs)
            G.add_edges_from(((k, q), (k, q + 1)) for q in seqs if q + 1 in seqs)
        for (u, w), ed in Ed.items():
            for so, si in zip(ed["seq_out"][e], ed["seq_in"][e]):
                if so >= 0 and si >= 0 and (u, int(so)) in G and (w, int(si)) in G:
                    G.add_edge((u, int(so)), (w, int(si)))
        needed = set()
        for p_ in range(P):
            needed |= nx.ancestors(G, (sup, p_)) | {(sup, p_)}
        n_needed += len(needed)
        sched = {}
        for n, (kind, run_, seq_, t0, t1) in slots.items():
            for p_ in range(run_.shape[1]):
                if bool(run_[e, p_]):
                    key = (kind, int(seq_[e, p_]))
                    sched.setdefault(key, []).append((n, p_))
                    if key in G:
                        q = key[1]
                        if abs(float(t0[e, p_]) - float(V[kind]["ts_start"][e][q])) > 1e-6 or abs(float(t1[e, p_]) - float(V[kind]["ts_end"][e][q])) > 1e-6:
                            bad.append(f"episode {e}: slot {n} partition {p_} carries times of another vertex than {key}")
                    else:
                        bad.append(f"episode {e}: slot {n} partition {p_} schedules {key}, which is not a vertex of the graph")
        for key in sorted(needed):
            if len(sched.get(key, [])) != 1:
                bad.append(f"episode {e}: vertex {key} (needed by a supervisor step < {P}) is scheduled {len(sched.get(key, []))} times: {sched.get(key, [])}")
        for key, where in sched.items():
            if len(where) > 1 and key not in needed:
                bad.append(f"episode {e}: vertex {key} is scheduled {len(where)} times: {where}")
    o = Ob("instance: every vertex of the computation graph that a supervisor step inside the horizon depends on is scheduled exactly once, with its own seq and times "
           "(oracle: ancestors in the raw graph, not the compiled timings)", "unsat" if not bad else "sat", 0, dict(inst=inst),
           detail=f"{n_needed} needed vertices over {n_eps} episodes, horizon {P}; {bad[:3]}", key="coverage", queries=max(1, n_needed),
           what=f"compiled schedule does not cover the computation graph: {bad[:2]}")
    if bad:
        o.replayed = True  # read off the real Graph's timings
    return [o]


def _replay_exec_order(inst, eps):
    import jax
    from vlib import cg, fixtures

    try:
        nodes, cgr, g = cg.build(inst, node_cls=fixtures.OracleNode)
        fixtures.CALL_LOG.clear()
        g.rollout(g.init(jax.random.PRNGKey(1), starting_eps=eps))
        seen = {}
        for tag, a in fixtures.CALL_LOG:
            kind, seq = tag[len("oracle_step_"):], int(a[0])
            if seq != len(seen.setdefault(kind, [])):
                return True
            seen[kind].append(seq)
        return False
    except BaseException:  # noqa
        return None


def configs(tier):
    out = []
    if tier == "quick":
        shapes = [(1, 3, 2, 3), (2, 4, 2, 4), (2, 4, 3, 4), (1, 2, 4, 2), (2, 3, 5, 3)]  # the last two: a receiver that steps more often than it receives (seq >= #edges)
    else:
        shapes = [(1, 3, 2, 3), (2, 4, 2, 4), (2, 4, 3, 4), (3, 5, 3, 5), (1, 6, 4, 6), (2, 6, 4, 6), (1, 2, 4, 2), (2, 3, 5, 3), (1, 2, 6, 3), (3, 3, 6, 4)]
    for (W, N1, N2, E) in shapes:
        for tr in (False, True):
            out.append(dict(W=W, N1=N1, N2=N2, E=E, trainable=tr))
    return out


def run(rep):
    from rex import base, utils
    from vlib import cg
    from vlib.common import pmap

    rep.technique = ("jaxpr of the live utils.apply_window interpreted on a symbolic computation graph (vertex/edge arrays as z3 terms); z3 decides "
                     "that every receiver step's window equals the independently stated last-W-consumed-messages rule; counterexamples replayed")
    rep.encode(utils.apply_window, base.Window.push, base.Window._shift)
    cfgs = configs(rep.tier)
    rep.configs = cfgs
    rep.bounds = dict(shapes_W_N1_N2_E=sorted({(c["W"], c["N1"], c["N2"], c["E"]) for c in cfgs}), trainable_ext=1)
    rep.assumptions = ["input graph satisfies the documented Edge/Vertex contract: seq = index or -1 padding at the tail; seq_out consecutive; "
                       "seq_in non-decreasing, unreceived (-1) at the tail; edges only name existing sender vertices",
                       "NOT decided for all graphs: that the supergraph monomorphism schedules each needed vertex exactly once with producers first "
                       "(external supergraph library + numpy transcription in to_timings; not encodable symbolically). On an enumerated family of compiled instances "
                       "(incl. a 12:1 rate ratio on the uniform lax.scan path) the executed order is checked: sequence order per node, producers strictly before consumers"]
    obs = pmap("props.c07", "worker_window", cfgs, rep.tier)
    obs += pmap("props.c07", "worker_order", cg.instances(rep.tier, small=True)[:3], rep.tier)
    oinst = cg.instances(rep.tier, small=True)[:3] + [dict(kind="two", rate1=5, rate2=60, window12=2, window21=1, ts_max=0.45, mode=m) for m in ("generational", "topological")]
    oinst.append(dict(kind="three", rates=(10, 20, 15), windows=(2, 1, 2), ts_max=0.3, mode="mcs"))
    oinst += [dict(kind="two", rate1=10, rate2=20, window12=2, window21=1, ragged=[0.5, 0.3], mode=m) for m in ("mcs", "generational", "topological")]
    oinst.append(dict(kind="three", rates=(10, 20, 15), windows=(2, 1, 2), ragged=[0.3, 0.5, 0.4], mode="mcs"))
    oinst += [dict(kind="fanout", mode="mcs", ts_max=0.5, windows=[4, 1]), dict(kind="fanout", mode="generational", ts_max=0.5, windows=[2, 1], third=[5, 10])] + cg.random_instances(rep.tier, quick_n=3)
    rep.configs = list(rep.configs) + oinst
    obs += pmap("props.c07", "worker_exec_order", oinst, rep.tier)
    obs += pmap("props.c07", "worker_coverage", oinst, rep.tier)
    try:
        from props import c07_attach
        obs += c07_attach.run_all(rep)
    except ImportError:
        rep.notes.append("attachment clause (to_connected_graph, engine A) not built yet")
    rep.add_all(obs)


def replay(rp):
    return False
