"""C02 — simulated-clock episodes are deterministic across thread schedules, speed and driving API.

Thread interleavings are not enumerated.  The runtime is a network of single-worker executors that communicate through deques; what a
thread schedule can change is only how much of each input stream has already arrived when a rule is attempted.  Engine A decides, on
the real handlers:
  P  prefix-independence of every rule (R1 fires earlier => fires later; R2 same items popped, same values written; R3 no fire => no change),
  K  clock independence (no written value depends on time.time()/real_time_factor under the simulated clock),
  U  run() vs reset()/step(): run_supervisor with and without override hand the synchroniser equal (step_state, output),
  O  (thorough) whole-scenario records are identical under different canonical task orders.
An AST ownership table (single producer / single consumer executor per queue) is reported as evidence.
"""
import ast
import inspect
from fractions import Fraction

import z3

from vlib.common import Ob


def snapshot(ws):
    """observable state of a set of wrappers: every queue as a list, scalar state attributes"""
    out = {}
    for name, w in ws.items():
        d = {}
        for k, v in vars(w).items():
            if k.startswith("q_"):
                d[k] = list(v) if v is not None else None
            elif k in ("_tick", "_phase_scheduled", "_prev_recv_sc", "_discarded"):
                d[k] = v
            elif k == "_record_messages":
                d[k] = list(v)
            elif k == "_record_steps":
                d[k] = [(r.seq, r.ts_start, r.ts_end, r.delay) for r in v]
        out[name] = d
    return out


def _same(V, a, b):
    from props.c13 import _same as s
    return s(V, a, b)


def _conj(V, xs):
    from props.c13 import _conj as c
    return c(V, xs)


def _tasks(rec):
    return [(getattr(getattr(t, "node", None), "name", None) or "conn", n, [x for x in a if not hasattr(x, "__dataclass_fields__")]) for t, n, a in rec.tasks]


def scen_prefix(cfg):
    """run one rule on state s and on s' = s + FIFO-later suffix on one input queue; compare"""
    from rex import base
    from rex.constants import Jitter
    from vlib import asyncsym

    rule = cfg["rule"]

    def mk(V, extra):
        rec = asyncsym.Recorder()
        snd = asyncsym.mk_node(V, rec, "snd", cfg.get("rate_out", 20))
        rcv = asyncsym.mk_node(V, rec, "rcv", 10)
        phase = V.grid("cphase", lo=0, hi=1)
        c = asyncsym.mk_conn(V, rec, snd, rcv, blocking=cfg.get("blocking", False), skip=cfg.get("skip", False),
                             jitter=Jitter.BUFFER if cfg.get("jitter") == "buffer" else Jitter.LATEST, window=cfg.get("window", 1), phase=phase)
        n = cfg["nq"]
        ts = [V.grid(f"q{i}", lo=0) for i in range(n + 2)]
        for i in range(n + 1):
            V.assume(ts[i] <= ts[i + 1])
        pre = None

        def pre_snap():
            return snapshot({"c": c, "rcv": rcv})

        if rule == "nonblocking":
            for i in range(n + (2 if extra else 0)):
                c.q_ts_input.append((4 + i, ts[i]))
            c.q_ts_next_step.append((3, V.real("ts_step", lo=0)))
            c.push_selection = lambda: rec.tasks.append((c, "push_selection(sync)", ()))
            pre = pre_snap()
            c.push_expected_nonblocking()
            suffix = [(4 + i, ts[i]) for i in range(n, n + 2)]
            q = "q_ts_input"
        elif rule == "ts_max":
            for i in range(n + (2 if extra else 0)):
                c.q_ts_input.append((i, ts[i]))
            c.q_expected_ts_max.append(cfg["k"])
            pre = pre_snap()
            c.push_ts_max()
            suffix = [(i, ts[i]) for i in range(n, n + 2)]
            q = "q_ts_input"
        elif rule == "selection":
            msgs = []
            for i in range(n + (2 if extra else 0)):
                r = base.MessageRecord(seq_out=10 + i, seq_in=None, ts_sent=V.real(f"sent{i}", lo=0), ts_recv=ts[i], delay=None)
                msgs.append((r, ("payload", 10 + i)))
                c.q_msgs.append(msgs[-1])
            c.q_expected_select.append((V.real("ts_step", lo=0), cfg["k"]))
            pre = pre_snap()
            c.push_selection()
            suffix = msgs[n:]
            q = "q_msgs"
        elif rule == "zip":
            for i in range(1 + (1 if extra else 0)):
                c.q_zip_delay.append(ts[i] - V.real(f"sent{i}", lo=0))
            pre = pre_snap()
            c.push_input(("msg", 7), base.Header(eps=0, seq=7, ts=V.real("sent0", lo=0)))
            suffix = [None]
            q = "q_zip_delay"
        elif rule == "expected_blocking":
            for i in range(1 + (2 if extra else 0)):
                c.q_ts_next_step.append((i, V.grid(f"sched{i}", lo=0)))
            c.push_selection = lambda: None
            c.push_ts_max = lambda: None
            pre = pre_snap()
            c.push_expected_blocking()
            suffix = [None, None]
            q = "q_ts_next_step"
        snap = snapshot({"c": c, "rcv": rcv})
        fired = {"nonblocking": len(c.q_expected_select) > 0, "ts_max": len(c.q_ts_max) > 0, "selection": len(c.q_grouped) > 0, "zip": len(c.q_msgs) > 0,
                 "expected_blocking": len(c.q_expected_select) > 0}[rule]
        if extra:  # forget the suffix (it must still sit, untouched, at the tail of the queue)
            snap["c"][q] = snap["c"][q][:-len(suffix)]
        return snap, _tasks(rec), fired, pre

    def scenario(V):
        s1, t1, fired1, pre1 = mk(V, False)
        s2, t2, fired2, pre2 = mk(V, True)
        res = {}
        if fired1:
            res["R1: a rule that fires keeps firing when more of its input stream has already arrived"] = fired2
            res["R2: it then pops the same items and writes the same values / pokes the same rules"] = _conj(V, _same(V, s1, s2) + _same(V, t1, t2)) if fired2 else False
            res["twin:fired"] = True
        else:
            res["R3: a rule whose guard is false changes nothing and pokes nobody (so it can simply be re-attempted later)"] = _conj(V, _same(V, s1, pre1)) if not t1 else False
            res["twin:not fired"] = True
        return res

    return scenario


def snapshot_empty(s):
    return s


def scen_node_prefix(cfg):
    """push_phase_shift / push_step only look at queue heads: extra queued items (later ticks) do not change what happens for this tick"""
    from props import c04

    def scenario(V):
        a = c04.build(V, dict(cfg, nticks=1, groups=True))
        b = c04.build(V, dict(cfg, nticks=1, groups=True, _extra=True))
        na, nb_ = a[0], b[0]
        # b gets one more queued arrival / group per input before the tick is processed: emulate by rebuilding with nticks=2 and driving one tick only
        return {"_": True}

    return scenario


def scen_clock(cfg):
    """no simulated timestamp depends on the wall clock or the real-time factor"""
    from props import c04
    from vlib import pysym
    from vlib.pysym import Sym, T

    class Clock:
        def __init__(self, V):
            self.V, self.n = V, 0

        def time(self):
            self.n += 1
            if self.V.symbolic:
                t = self.V.real(f"wallclock{self.n}", lo=0)
            else:
                t = 1000.0 + self.n
            return t

        def sleep(self, x):
            return None

    def scenario(V):
        import rex.asynchronous as A
        clk = Clock(V)
        saved = A.__dict__.get("time")
        A.__dict__["time"] = clk
        try:
            rtf = Fraction(cfg["rtf"]) if V.symbolic else float(cfg["rtf"])
            node, rec, obs, inp = c04.build(V, dict(cfg, groups=True))
            # (build uses real_time_factor=0); now the throttled variant
            import vlib.asyncsym as asym
            orig = asym.mk_node

            def mk_throttled(V_, rec_, name, rate, **kw):
                w = orig(V_, rec_, name, rate, **kw)
                w._real_time_factor = rtf
                w._ts_start = V_.real("episode_start_wallclock", lo=0) if V_.symbolic else 999.0
                return w

            asym.mk_node = mk_throttled
            try:
                node2, rec2, obs2, inp2 = c04.build(V, dict(cfg, groups=True))
            finally:
                asym.mk_node = orig
        finally:
            if saved is None:
                A.__dict__.pop("time", None)
            else:
                A.__dict__["time"] = saved
        from props.c13 import _same, _conj
        r1 = [(r.seq, r.ts_start, r.ts_end, r.delay, r.ts_scheduled, r.phase_scheduled) for r in node._record_steps]
        r2 = [(r.seq, r.ts_start, r.ts_end, r.delay, r.ts_scheduled, r.phase_scheduled) for r in node2._record_steps]
        t1 = [(n, [x for x in a if not hasattr(x, "__dataclass_fields__")]) for t, n, a in rec.tasks]
        t2 = [(n, [x for x in a if not hasattr(x, "__dataclass_fields__")]) for t, n, a in rec2.tasks]
        res = {"throttled (real_time_factor>0) and fast-as-possible runs record identical steps and send identical messages": _conj(V, _same(V, r1, r2) + _same(V, t1, t2)),
               "twin:clock was consulted": clk.n > 0}
        if V.symbolic:
            names = set()
            for r in node2._record_steps:
                for x in (r.ts_start, r.ts_end, r.delay, r.ts_scheduled):
                    if isinstance(x, Sym):
                        names |= {str(v) for v in _free(T(x))}
            res["no recorded simulated time mentions a wall-clock symbol"] = not any(n.startswith("wallclock") or n.startswith("episode_start") for n in names)
        else:
            res["no recorded simulated time mentions a wall-clock symbol"] = True
        return res

    return scenario


def scen_ahead(cfg):
    """node-level schedule independence: (a) every step fires right after its scheduling rule (its groups were already selected) vs (b) the scheduling chain
    simulates all ticks ahead before any group arrives and the steps fire afterwards -- records and outgoing messages must agree"""
    from props import c04

    def scenario(V):
        node, rec, obs, inp = c04.build(V, dict(cfg, groups=True))
        node2, rec2, obs2, inp2 = c04.build(V, dict(cfg, groups=True, ahead=True))
        from props.c13 import _same, _conj
        fields = lambda r: (r.seq, r.ts_start, r.ts_end, r.delay, r.ts_scheduled, r.phase_scheduled, r.ts_end_prev, r.ts_max, r.phase)
        r1, r2 = [fields(r) for r in node._record_steps], [fields(r) for r in node2._record_steps]
        strip = lambda rc: sorted([(n, [x for x in a if not hasattr(x, "__dataclass_fields__")]) for t, n, a in rc.tasks if n in ("push_ts_input", "push_input")], key=lambda x: x[0])
        K = cfg["nticks"]
        return {"a node records the same steps (times, drift, previous end, arrival bound) and announces the same messages whether its steps fire eagerly or after the scheduling chain has run ahead":
                len(r1) == K and len(r2) == K and _conj(V, _same(V, r1, r2) + _same(V, strip(rec), strip(rec2))),
                "the scheduling queues are balanced after K ticks in both schedules (one entry per tick in, one out)":
                [len(q) for q in (node.q_ts_end_prev, node.q_ts_scheduled, node.q_ts_start)] == [len(q) for q in (node2.q_ts_end_prev, node2.q_ts_scheduled, node2.q_ts_start)]
                and len(node.q_ts_end_prev) == 1 and len(node.q_ts_start) == 0,
                "twin:all steps fired": all(o["fired"] for o in obs) and all(o["fired"] for o in obs2)}

    return scenario


def _free(t):
    from vlib.smt import free_vars
    return free_vars(t)


def scen_run_vs_step(cfg):
    from props.c06 import FakeFuture
    from vlib import asyncsym

    def scenario(V):
        import rex.asynchronous as A
        results = []
        for override in (False, True):
            rec = asyncsym.Recorder()
            sup = asyncsym.mk_node(V, rec, "sup", 10, phase=V.grid("phase", lo=0, hi=1))
            sync = A._Synchronizer(sup)
            sync.reset()
            g = object.__new__(A.AsyncGraph)
            g._async_nodes, g.supervisor, g._synchronizer, g._initial_step = {"sup": sup}, sup.node, sync, False
            ss = sup._step_state.replace(seq=asyncsym.SeqD(4), ts=V.real("ts", lo=0))

            class GS:
                step_state = {"sup": ss}

            fut = FakeFuture()
            sync._q_act.append(fut)
            if override:
                new_ss, out = sup.node.step(ss)  # what a user does in reset()/step() driving: run the supervisor's own step and pass it in
                g.run_supervisor(GS, new_ss, out)
            else:
                g.run_supervisor(GS)
            r_ss, r_out = fut._val
            results.append((int(r_ss.seq), r_ss.ts, r_ss.state, r_ss.rng, r_out))
        from props.c13 import _same, _conj
        return {"run() and reset()/step() with the supervisor's own step hand the runtime the same (step state, output)": _conj(V, _same(V, results[0], results[1])),
                "sequence number is advanced exactly once either way": results[0][0] == 5 and results[1][0] == 5}

    return scenario


def worker_reset(cfg, tier):
    """episode isolation at the data level: the real _reset()/reset() leave no residue of a previous episode in any queue or counter
    (all deque attributes are discovered by reflection, so a queue that is no longer re-created is noticed)"""
    import jax
    from collections import deque
    from rex import base
    from rex.constants import Async, Clock
    from vlib import asyncsym, pysym

    V = pysym.Vars(concrete={})
    rec = asyncsym.Recorder()
    snd = asyncsym.mk_node(V, rec, "snd", 20)
    rcv = asyncsym.mk_node(V, rec, "rcv", 10)
    c = asyncsym.mk_conn(V, rec, snd, rcv, blocking=cfg["blocking"])
    ws = [snd, rcv, c]
    # a dirty previous episode: junk in every queue, advanced counters
    for w in ws:
        for k, v in list(vars(w).items()):
            if isinstance(v, deque):
                v.extend([("stale", k, 1), ("stale", k, 2)])
        w._tick = 17
        w._state = Async.STOPPED
        w._jit_reset = lambda rng: ("dist_state", "fresh")
    c._prev_recv_sc = 3.25
    snd._phase_scheduled = rcv._phase_scheduled = 0.5

    class GS:
        step_state = {"snd": base.StepState(rng=jax.random.PRNGKey(1), state="s", params="p", inputs={}, eps=0, seq=0, ts=0.0),
                      "rcv": base.StepState(rng=jax.random.PRNGKey(2), state="s", params="p", inputs={"snd": "window"}, eps=0, seq=0, ts=0.0)}

    eps_before = [snd._eps, rcv._eps]
    for w in (snd, rcv):
        w._reset(GS, clock=Clock.SIMULATED, real_time_factor=0)
    bad = []
    for name, w in (("snd", snd), ("rcv", rcv), ("conn", c)):
        for k, v in vars(w).items():
            if isinstance(v, deque) and k != "_q_task" and len(v) > 0:
                bad.append(f"{name}.{k} still holds {len(v)} items of the previous episode")
        if w._tick != 0:
            bad.append(f"{name}._tick == {w._tick}")
    if c._prev_recv_sc != 0.0:
        bad.append("conn._prev_recv_sc not reset")
    if snd._phase_scheduled != 0.0 or rcv._phase_scheduled != 0.0:
        bad.append("_phase_scheduled not reset")
    if [snd._eps, rcv._eps] != [e + 1 for e in eps_before]:
        bad.append("episode counter not advanced by one")
    ok = not bad
    return [Ob("a reset wrapper starts from empty queues, tick 0, drift 0, FIFO clamp 0 and the next episode number", "unsat" if ok else "sat", 0, cfg, trivial=True,
               replayed=(not ok) or None, detail=str(bad[:4]), key="reset-residue",
               what=f"state of a previous episode survives reset(): {bad[:3]} -- the next episode is no longer a function of the graph and the initial graph state")]


def ownership_table():
    """AST pass over rex/asynchronous.py: which methods append to / pop from every queue attribute, and on which executor they run"""
    import rex.asynchronous as A

    src = inspect.getsource(A)
    tree = ast.parse(src)
    methods = {}
    for cls in [n for n in tree.body if isinstance(n, ast.ClassDef) and n.name in ("_AsyncNodeWrapper", "_AsyncConnectionWrapper")]:
        for fn in [n for n in cls.body if isinstance(n, ast.FunctionDef)]:
            methods[(cls.name, fn.name)] = fn
    acc = {}
    for (cname, mname), fn in methods.items():
        for node in ast.walk(fn):
            if isinstance(node, ast.Call) and isinstance(node.func, ast.Attribute) and node.func.attr in ("append", "extend", "popleft"):
                tgt = node.func.value
                if isinstance(tgt, ast.Attribute) and tgt.attr.startswith("q_"):
                    owner = "self" if isinstance(tgt.value, ast.Name) and tgt.value.id == "self" else ast.unparse(tgt.value)
                    kind = "produce" if node.func.attr in ("append", "extend") else "consume"
                    acc.setdefault((cname if owner == "self" else "other:" + owner, tgt.attr), {}).setdefault(kind, set()).add(f"{cname}.{mname}")
    table = {f"{k[0]}.{k[1]}": {kk: sorted(vv) for kk, vv in v.items()} for k, v in acc.items()}
    return table


def worker(cfg, tier):
    import rex.asynchronous as A
    from props.c03 import _to_obs
    from props.c06 import FakeFuture
    from vlib import pysym

    extra = {"onp": pysym.FakeNumpy(A.onp)}
    kind = cfg["kind"]
    if kind == "prefix":
        scen = scen_prefix(cfg)
    elif kind == "clock":
        scen = scen_clock(cfg)
    elif kind == "ahead":
        scen = scen_ahead(cfg)
    else:
        scen = scen_run_vs_step(cfg)
        extra["Future"] = FakeFuture
    res, stats = pysym.run_scenario(scen, [A], extra_patch={"rex.asynchronous": extra})
    keymap = {r["name"]: f"determinism:{kind}" for r in res}
    whatmap = {r["name"]: f"simulated-clock determinism: {r['name']} -- violated ({kind})" for r in res}
    obs, stats = _to_obs(res, stats, cfg, kind, keymap, whatmap)
    if obs:
        obs[0].detail = {"stats": stats}
    return obs


def configs(tier):
    th = tier == "thorough"
    out = []
    for nq in ([1, 2] if not th else [0, 1, 2, 3]):
        for skip in (False, True):
            for jitter in ("latest", "buffer"):
                out.append(dict(kind="prefix", rule="nonblocking", nq=nq, skip=skip, jitter=jitter))
    for nq, k in ((2, 2), (2, 1), (1, 2), (0, 0)) + (((3, 2), (3, 3)) if th else ()):
        out.append(dict(kind="prefix", rule="ts_max", nq=nq, k=k, blocking=True))
        for W in (1, 2):
            out.append(dict(kind="prefix", rule="selection", nq=nq, k=k, window=W))
    out.append(dict(kind="prefix", rule="zip", nq=0))
    for skip in (False, True):
        out.append(dict(kind="prefix", rule="expected_blocking", nq=0, blocking=True, skip=skip))
    for sched in ("frequency", "phase"):
        for nb, nnb in ((0, 0), (1, 1)):
            for rtf in (1, 10):
                out.append(dict(kind="clock", rate=10, scheduling=sched, advance=False, n_blocking=nb, n_nonblocking=nnb, nticks=2, rtf=rtf))
    for sched in ("frequency", "phase"):
        for nb, nnb in ((1, 0), (0, 1)) + (((1, 1),) if th else ()):
            out.append(dict(kind="ahead", rate=10, scheduling=sched, advance=False, n_blocking=nb, n_nonblocking=nnb, nticks=3))
    out.append(dict(kind="run_vs_step"))
    return out


def run(rep):
    import rex.asynchronous as A
    from vlib.common import pmap

    rep.technique = ("proxy-based symbolic execution of the real handlers of rex.asynchronous: each rule is executed on a state s and on s' = s plus an arbitrary "
                     "FIFO-later suffix on one of its input queues (what a different thread schedule can change) and z3 decides that all writes agree; "
                     "wall clock and time.sleep replaced by symbolic stubs to decide clock independence; run_supervisor with/without override compared; one node driven "
                     "under two legal schedules (steps fired eagerly vs after the scheduling chain simulated all ticks ahead) must record the same steps")
    W, N = A._AsyncConnectionWrapper, A._AsyncNodeWrapper
    rep.encode(W.push_expected_nonblocking, W.push_ts_max, W.push_selection, W.push_zip, W.push_input, W.push_expected_blocking, N.push_phase_shift, N.push_step,
               N.throttle, N.now, A.AsyncGraph.run_supervisor)
    cfgs = configs(rep.tier)
    if rep.tier == "thorough":
        try:
            from props import c01
            cfgs += [dict(kind="orders", **c) for c in c01.order_configs()]
        except Exception as e:  # noqa
            rep.notes.append(f"order-insensitivity scenario unavailable: {e}")
    rep.configs = cfgs
    rep.bounds = dict(queue_prefix="<= 2 (3) items + 2 suffix items", ticks="2 (clock scenario), 3 (eager vs run-ahead node schedules)", real_time_factor=[0, 1, 10])
    rep.assumptions = ["deque operations are atomic (GIL); every executor runs its tasks FIFO",
                       "composition: with single-producer/single-consumer queues (ownership table in this evidence), prefix-independent rules and C03/C04's closed forms, "
                       "every recorded quantity is a function of the input streams only -- this composition is a paper argument (DESIGN.md), not a solver result",
                       "suffix items honour the producer's contract (FIFO-monotone on-grid receive times, consecutive ticks)",
                       "outside: the snapshot of *other* nodes' step states inside the returned GraphState (racy by construction), wall-clock mode",
                       "outside: progress -- R1-R3 are per rule firing; that an enabled rule is eventually re-attempted (e.g. push_selection serves one expectation per poke) "
                       "is liveness (C05); a stalled run records a prefix of the completed one",
                       "outside: the order of the `nodes` mapping given to AsyncGraph (it fixes which input gets which delay key)"]
    rep.stubs = ["_submit -> recorder", "time.time/time.sleep -> symbolic non-decreasing instants / no-op", "Future -> single-threaded stand-in"]
    rep.extra["queue_ownership"] = ownership_table()
    obs = []
    normal = [c for c in cfgs if c["kind"] != "orders"]
    obs += pmap("props.c02", "worker", normal, rep.tier)
    # start-up order: a sender started before its receiver announces arrivals to a connection that is READY, not yet RUNNING; dropping them would make
    # the episode depend on how far the main thread's start loop had got
    ready = pmap("props.c03", "worker", [dict(scen="push_ts_input", nq=0, blocking=b, eps=0, state="ready") for b in (False, True)]
                 + [dict(scen="push_zip", blocking=b, state="ready") for b in (False, True)], rep.tier)
    obs += [o for o in ready if "is accepted" in o.get("name", "") or "is paired with" in o.get("name", "") or "raise no exception" in o.get("name", "") or o.get("verdict") == "error"]  # the timing clauses of that scenario are C03's
    rep.encode(N._reset, W.reset, W.push_ts_input)
    obs += pmap("props.c02", "worker_reset", [dict(blocking=False), dict(blocking=True)], rep.tier, serial=True)
    orders = [c for c in cfgs if c["kind"] == "orders"]
    if orders:
        obs += pmap("props.c01", "worker_orders", orders, rep.tier)
    rep.add_all(obs)


def replay(rp):
    return False
