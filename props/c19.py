"""C19 — RL environment wrappers account episodes, actions and statistics correctly.

Engine B on the real wrappers of rex.rl around a stub inner environment whose results are oracles (uninterpreted functions of
what it is handed), and on rl.Environment.step around a real tiny compiled graph.
"""
import time
from fractions import Fraction

import numpy as np
import z3

from vlib.common import Ob


def _stub_env(B, D, with_params=None):
    """inner environment whose step/reset results are oracle callbacks (batched if B is not None)."""
    import jax
    import jax.numpy as jnp
    from flax.core import FrozenDict
    from rex import base, rl
    from vlib.fixtures import PState, oracle_callback

    bs = () if B is None else (B,)

    class Stub:
        params = with_params

        def action_space(self, gs):
            return rl.Box(low=gs.aux["bounds"][0], high=gs.aux["bounds"][1]) if "bounds" in gs.aux else rl.Box(jnp.array([-1.0]), jnp.array([1.0]))

        def reset(self, rng=None):
            x = jax.pure_callback(oracle_callback("reset_state", bs), jax.ShapeDtypeStruct(bs, jnp.float32), rng, vmap_method="sequential")
            obs = jax.pure_callback(oracle_callback("reset_obs", bs + (D,)), jax.ShapeDtypeStruct(bs + (D,), jnp.float32), rng, vmap_method="sequential")
            inf = jax.pure_callback(oracle_callback("reset_info", bs), jax.ShapeDtypeStruct(bs, jnp.float32), rng, vmap_method="sequential")
            gs = base.GraphState(rng=FrozenDict({"n": rng}), state=FrozenDict({"n": PState(x=x)}))
            return gs, obs, {"i": inf}

        def step(self, gs, action):
            a = (gs.state["n"].x, action)
            cb = lambda tag, shp, dt: jax.pure_callback(oracle_callback(tag, shp, dt), jax.ShapeDtypeStruct(shp, dt), *a, vmap_method="sequential")
            x = cb("step_state", bs, jnp.float32)
            obs = cb("step_obs", bs + (D,), jnp.float32)
            rew = cb("step_reward", bs, jnp.float32)
            term = cb("step_terminated", bs, jnp.bool_)
            trunc = cb("step_truncated", bs, jnp.bool_)
            inf = cb("step_info", bs, jnp.float32)
            ngs = gs.replace(state=gs.state.copy({"n": PState(x=x)}))
            return ngs, obs, rew, term, trunc, {"i": inf}

    return Stub()


class _ConcreteEnv:
    """a two-field action drives the inner environment in replays: action = [reward, terminate flag]"""

    params = None

    def __init__(self, D):
        self.D = D

    def reset(self, rng=None):
        import jax.numpy as jnp
        from flax.core import FrozenDict
        from rex import base
        from vlib.fixtures import PState
        return base.GraphState(rng=FrozenDict({"n": rng}), state=FrozenDict({"n": PState(x=jnp.float32(0.0))})), jnp.zeros((self.D,), jnp.float32), {}

    def step(self, gs, action):
        import jax.numpy as jnp
        return gs, jnp.zeros((self.D,), jnp.float32), action[0], action[1] > 0.5, jnp.bool_(False), {}


def _eqz(alg, a, b):
    from vlib import jx
    e = jx.tree_equal(alg, a, b)
    return z3.BoolVal(e) if isinstance(e, bool) else e


def worker(cfg, tier):
    import jax
    import jax.numpy as jnp
    from flax.core import FrozenDict
    from rex import base, rl
    from vlib import cg, jx, smt
    from vlib.fixtures import PState

    which = cfg["which"]
    B, D = cfg.get("B", 2), cfg.get("D", 1)
    obs = []
    tmo = 120 if tier == "quick" else 600
    key0 = jax.random.PRNGKey(0)

    def gs_base(extra_aux):
        return base.GraphState(rng=FrozenDict({"n": key0}), state=FrozenDict({"n": PState(x=jnp.float32(0.0))}), aux=FrozenDict(extra_aux))

    def setup(fn, *args):
        calls = cg.UFCalls()
        it = jx.Interp(callback_handler=calls.handler)
        tr = jx.Traced(fn, *args)
        flat = tr.sym_inputs(it, "w")
        out = tr.run(it, flat)
        return calls, it, tr, flat, tr.in_pytree(flat), out

    def inner(calls, tag):
        c = calls.by_tag(f"oracle_{tag}")
        assert len(c) == 1, (tag, len(c))
        return c[0]

    if which == "autoreset_fixed":
        env = rl.AutoResetWrapper(_stub_env(None, D), fixed_init=True)
        init = rl.InitialState(graph_state=gs_base({}), obs=jnp.zeros((D,), jnp.float32), info={"i": jnp.float32(0)})
        gs0 = gs_base({"init": init})
        calls, it, tr, flat, (gs, act), out = setup(env.step, gs0, jnp.zeros((1,), jnp.float32))
        alg = it.alg
        i_state, i_obs, i_rew = inner(calls, "step_state")["outs"][0], inner(calls, "step_obs")["outs"][0], inner(calls, "step_reward")["outs"][0]
        i_term, i_trunc, i_info = inner(calls, "step_terminated")["outs"][0], inner(calls, "step_truncated")["outs"][0], inner(calls, "step_info")["outs"][0]
        done = z3.Or(alg.z(i_term.item()), alg.z(i_trunc.item()))
        ini = gs.aux["init"]

        def G(o):
            ngs, nobs, rew, term, trunc, ninfo = o
            return z3.And(
                _eqz(alg, rew, i_rew), _eqz(alg, term, i_term), _eqz(alg, trunc, i_trunc),
                z3.Implies(done, z3.And(_eqz(alg, ngs.state["n"].x, ini.graph_state.state["n"].x), _eqz(alg, nobs, ini.obs), _eqz(alg, ninfo["i"], ini.info["i"]),
                                        _eqz(alg, ngs.rng["n"], gs.rng["n"]), _eqz(alg, ngs.aux["init"], gs.aux["init"]))),
                z3.Implies(z3.Not(done), z3.And(_eqz(alg, ngs.state["n"].x, i_state), _eqz(alg, nobs, i_obs), _eqz(alg, ninfo["i"], i_info),
                                                _eqz(alg, ngs.rng["n"], gs.rng["n"]), _eqz(alg, ngs.aux["init"], gs.aux["init"]))))

        obs.append(cg.decide_oracle("auto-reset(fixed init): done => stored initial state/obs/info (current rng, aux); else pass-through; reward/flags of the finished step",
                                    cfg, it, tr, flat, calls, out, [], G, "autoreset-fixed",
                                    "AutoResetWrapper(fixed_init=True).step returns the wrong state/observation/flags", tmo))
        v, m, s = smt.satisfiable([done], 10)
        obs.append(Ob("twin.done_reachable", v, s, cfg, kind="vacuity"))

    elif which == "autoreset_fresh":
        env = rl.AutoResetWrapper(_stub_env(None, D, with_params={}), fixed_init=False)
        gs0 = gs_base({})
        calls, it, tr, flat, (gs, act), out = setup(env.step, gs0, jnp.zeros((1,), jnp.float32))
        alg = it.alg
        i_state, i_obs, i_rew = inner(calls, "step_state")["outs"][0], inner(calls, "step_obs")["outs"][0], inner(calls, "step_reward")["outs"][0]
        i_term, i_trunc, i_info = inner(calls, "step_terminated")["outs"][0], inner(calls, "step_truncated")["outs"][0], inner(calls, "step_info")["outs"][0]
        r_state, r_obs, r_info = inner(calls, "reset_state"), inner(calls, "reset_obs"), inner(calls, "reset_info")
        done = z3.Or(alg.z(i_term.item()), alg.z(i_trunc.item()))
        # the rng of the inner result is split: [0] stays in the state, [1] seeds the fresh reset
        kin = gs.rng["n"]
        wrap = lambda sa: jx.Key.mk(alg.z(sa.v[0], "i"), alg.z(sa.v[1], "i"))
        k_in = wrap(kin)
        k_new, k_init = jx.f_split(k_in, z3.IntVal(0)), jx.f_split(k_in, z3.IntVal(1))
        k_reset_arg = wrap(r_state["args"][0])

        def G(o):
            ngs, nobs, rew, term, trunc, ninfo = o
            k_state_out = wrap(ngs.rng["n"])
            return z3.And(
                _eqz(alg, rew, i_rew), _eqz(alg, term, i_term), _eqz(alg, trunc, i_trunc),
                k_reset_arg == k_init,
                z3.Implies(done, z3.And(_eqz(alg, ngs.state["n"].x, r_state["outs"][0]), _eqz(alg, nobs, r_obs["outs"][0]), _eqz(alg, ninfo["i"], r_info["outs"][0]),
                                        k_state_out == k_init)),
                z3.Implies(z3.Not(done), z3.And(_eqz(alg, ngs.state["n"].x, i_state), _eqz(alg, nobs, i_obs), _eqz(alg, ninfo["i"], i_info),
                                                k_state_out == k_new)))

        o_ = cg.decide_oracle("auto-reset(fresh init): done => freshly reset state/obs/info drawn from split(rng)[1]; else pass-through with rng advanced to split(rng)[0]",
                              cfg, it, tr, flat, calls, out, [], G, "autoreset-fresh",
                              "AutoResetWrapper(fixed_init=False).step returns the wrong state/observation/flags", tmo)
        if o_.verdict == "sat" and o_.replayed is None:
            o_.replayed = _replay_autoreset_fresh()
        obs.append(o_)

    elif which == "stacking":
        # wrapper stackings: the state/observation/info a stack's reset() returns must be acceptable to its own step() (the auto-reset cond
        # requires the stored/fresh reset info and the step info to share one structure), and the stack keeps each wrapper's law
        order = cfg["order"]
        mk = {"autoreset(log(env))": lambda: rl.AutoResetWrapper(rl.LogWrapper(_stub_env(None, D)), fixed_init=cfg.get("fixed_init", True)),
              "log(autoreset(env))": lambda: rl.LogWrapper(rl.AutoResetWrapper(_stub_env(None, D), fixed_init=cfg.get("fixed_init", True))),
              "autoreset(log(autoreset(env)))": lambda: rl.AutoResetWrapper(rl.LogWrapper(rl.AutoResetWrapper(_stub_env(None, D), fixed_init=False)), fixed_init=True)}[order]
        name = f"stacking {order}: step() accepts what reset() returned; reward/flags are the inner step's; a finished episode hands back the initial state and observation"
        t0 = time.time()
        try:
            env = mk()
            gs0, obs0, info0 = env.reset(key0)
            calls, it, tr, flat, (gs, act), out = setup(env.step, gs0, jnp.zeros((1,), jnp.float32))
        except Exception as ex:  # the real stack raises while its step is evaluated/traced
            real = None
            try:
                env = mk()
                g_, o_, i_ = env.reset(key0)
                env.step(g_, jnp.zeros((1,), jnp.float32))
                real = False
            except Exception:
                real = True
            obs.append(Ob(name, "sat", time.time() - t0, cfg, key="wrapper-stacking", replayed=real, detail=f"{type(ex).__name__}: {str(ex)[:300]}",
                          what=f"the wrapper stack {order} cannot be stepped: its reset() and step() infos do not share a structure ({type(ex).__name__})"))
            return obs
        alg = it.alg
        i_rew, i_term, i_trunc = inner(calls, "step_reward")["outs"][0], inner(calls, "step_terminated")["outs"][0], inner(calls, "step_truncated")["outs"][0]
        i_state = inner(calls, "step_state")["outs"][0]
        done = z3.Or(alg.z(i_term.item()), alg.z(i_trunc.item()))

        def G(o):
            ngs, nobs, rew, term, trunc, ninfo = o
            conj = [_eqz(alg, rew, i_rew), _eqz(alg, term, i_term), _eqz(alg, trunc, i_trunc)]
            if order != "log(autoreset(env))" or cfg.get("fixed_init", True):
                ini = gs.aux["init"] if "init" in gs.aux else None
                if ini is not None:
                    conj.append(z3.Implies(done, z3.And(_eqz(alg, ngs.state["n"].x, ini.graph_state.state["n"].x), _eqz(alg, nobs, ini.obs))))
            conj.append(z3.Implies(z3.Not(done), _eqz(alg, ngs.state["n"].x, i_state)))
            lg0, lg1 = gs.aux["log"], ngs.aux["log"]
            conj.append(alg.z(lg1.timestep.item(), "i") == alg.z(lg0.timestep.item(), "i") + 1)
            conj.append(z3.Implies(done, alg.z(lg1.episode_lengths.item(), "i") == 0))
            conj.append(z3.Implies(z3.Not(done), alg.z(lg1.episode_lengths.item(), "i") == alg.z(lg0.episode_lengths.item(), "i") + 1))
            return z3.And(*conj)

        obs.append(cg.decide_oracle(name, cfg, it, tr, flat, calls, out, [], G, "wrapper-stacking", f"the wrapper stack {order} does not keep the wrappers' laws", tmo))
        v, m, s = smt.satisfiable([done], 10)
        obs.append(Ob("twin.done_reachable", v, s, cfg, kind="vacuity"))

    elif which == "log":
        env = rl.LogWrapper(_stub_env(None, D))
        ls = rl.LogState(episode_returns=jnp.float32(0), episode_lengths=jnp.int32(0), returned_episode_returns=jnp.float32(0),
                         returned_episode_lengths=jnp.int32(0), timestep=jnp.int32(0))
        gs0 = gs_base({"log": ls})
        calls, it, tr, flat, (gs, act), out = setup(env.step, gs0, jnp.zeros((1,), jnp.float32))
        alg = it.alg
        i_rew = inner(calls, "step_reward")["outs"][0].item()
        done = z3.Or(alg.z(inner(calls, "step_terminated")["outs"][0].item()), alg.z(inner(calls, "step_truncated")["outs"][0].item()))
        L0 = gs.aux["log"]
        ret, ln, rret, rln, t = [x.item() for x in (L0.episode_returns, L0.episode_lengths, L0.returned_episode_returns, L0.returned_episode_lengths, L0.timestep)]

        def G(o):
            ngs, nobs, rew, term, trunc, ninfo = o
            L1 = ngs.aux["log"]
            ret1, ln1, rret1, rln1, t1 = [x.item() for x in (L1.episode_returns, L1.episode_lengths, L1.returned_episode_returns, L1.returned_episode_lengths, L1.timestep)]
            return z3.And(
                t1 == t + 1, rew.item() == i_rew,
                z3.Implies(done, z3.And(rret1 == ret + i_rew, rln1 == ln + 1, ret1 == 0, ln1 == 0)),
                z3.Implies(z3.Not(done), z3.And(rret1 == rret, rln1 == rln, ret1 == ret + i_rew, ln1 == ln + 1)),
                ninfo["returned_episode_returns"].item() == rret1, ninfo["returned_episode_lengths"].item() == rln1,
                ninfo["timestep"].item() == t1, alg.z(ninfo["returned_episode"].item()) == done)

        obs.append(cg.decide_oracle("log wrapper: at episode end reports sum/count since the previous end and restarts; otherwise accumulates",
                                    cfg, it, tr, flat, calls, out, [], G, "logwrapper", "LogWrapper.step mis-accounts episode return/length", tmo))
        v, m, s = smt.satisfiable([done, ret != 0], 10)
        obs.append(Ob("twin.done_with_running_return", v, s, cfg, kind="vacuity"))

    elif which == "log_fp32":
        # the log wrapper's accounting in float32 with non-finite rewards admitted ("for all reward sequences"): at an episode end the running
        # return/length restart from zero and the report is the sum so far plus this reward; a non-finite reward must not poison later episodes
        alg = jx.FPAlg()
        it = jx.Interp(alg=alg)
        env = rl.LogWrapper(_ConcreteEnv(D))  # the inner environment's reward and termination flag are the two (symbolic) action entries
        ls = rl.LogState(episode_returns=jnp.float32(0), episode_lengths=jnp.int32(0), returned_episode_returns=jnp.float32(0),
                         returned_episode_lengths=jnp.int32(0), timestep=jnp.int32(0))
        gs0 = gs_base({"log": ls})
        tr = jx.Traced(env.step, gs0, jnp.zeros((2,), jnp.float32))
        flat = tr.sym_inputs(it, "l")
        gs, act = tr.in_pytree(flat)
        out = tr.run(it, flat)
        i_rew = act.v[0]
        done = z3.fpGT(act.v[1], z3.FPVal(0.5, alg.F32))
        L0, L1 = gs.aux["log"], out[0].aux["log"]
        ret0, ret1 = L0.episode_returns.item(), L1.episode_returns.item()
        fin = lambda a: z3.Not(z3.Or(z3.fpIsNaN(a), z3.fpIsInf(a)))
        pre = [fin(ret0), z3.Not(z3.fpIsNaN(i_rew))]
        zero = z3.FPVal(0.0, alg.F32)
        goal = z3.Implies(done, z3.fpEQ(ret1, zero))
        v, m, sec = smt.check(pre, goal, tmo)
        o_ = Ob("log wrapper (float32): at an episode end the running return restarts at 0 for every reward that is not NaN (infinite rewards included)", v, sec, cfg, key="log-restart-fp32",
                what="LogWrapper masks with `x * (1 - done)`: an infinite reward in the finishing episode leaves NaN (inf * 0) in the running return, which poisons every later episode's report")
        if v == "sat":
            try:
                e2 = rl.LogWrapper(_ConcreteEnv(D))
                g2, _, _ = e2.reset(key0)
                g2, *_ = e2.step(g2, jnp.array([np.inf, 1.0], jnp.float32))   # reward inf, episode ends
                g2, _, r3, *_ = e2.step(g2, jnp.array([1.0, 1.0], jnp.float32))  # a finite one-step episode afterwards
                o_.replayed = bool(np.isnan(np.asarray(g2.aux["log"].returned_episode_returns)))
            except Exception as ex:  # noqa
                o_.detail = f"replay raised {type(ex).__name__}: {ex}"
        obs.append(o_)

    elif which == "squash_fp32":
        # "squashed actions always land inside the action bounds" in the arithmetic the code runs in: float32, round-to-nearest-even.
        # tanh is uninterpreted over Float32 with the range axiom -1 <= tanh(x) <= 1 (true of every IEEE implementation).
        alg = jx.FPAlg()
        it = jx.Interp(alg=alg)
        st = rl.SquashState(low=jnp.zeros((1,), jnp.float32), high=jnp.ones((1,), jnp.float32), squash=True)
        tr = jx.Traced(lambda s_, x: s_.unsquash(x), st, jnp.zeros((1,), jnp.float32))
        flat = tr.sym_inputs(it, "q")
        s_in, x_in = tr.in_pytree(flat)
        out = tr.run(it, flat)
        lo, hi, x, y = s_in.low.v[0], s_in.high.v[0], x_in.v[0], out.v[0]
        t = jx.uf("tanh", 1, alg.F32)(x)
        F = lambda v: z3.FPVal(v, alg.F32)
        fin = lambda a: z3.Not(z3.Or(z3.fpIsNaN(a), z3.fpIsInf(a)))
        pre = [fin(lo), fin(hi), z3.fpLT(lo, hi), z3.fpLEQ(F(-1000.0), lo), z3.fpLEQ(hi, F(1000.0)), z3.Not(z3.fpIsNaN(x)),
               z3.fpLEQ(F(-1.0), t), z3.fpLEQ(t, F(1.0))]
        v, m, sec = smt.check(pre, z3.And(z3.fpLEQ(lo, y), z3.fpLEQ(y, hi)), tmo)
        o_ = Ob("squash (float32): unsquash(x) lies inside [low, high] for every float32 x and all finite bounds low < high (|bounds| <= 1000)", v, sec, cfg, key="squash-range-fp32",
                what="in float32 a squashed action can leave the action bounds: 0.5*(tanh(x)+1)*(high-low)+low rounds above `high` (below `low`) at saturation")
        if v == "sat":
            try:
                lo_c, hi_c = np.float32(float(jx.model_value(m, lo))), np.float32(float(jx.model_value(m, hi)))
                bad = False
                for xc in (np.float32(30.0), np.float32(-30.0), np.float32(9.5), np.float32(float(jx.model_value(m, x)))):
                    yc = np.asarray(rl.SquashState(low=jnp.array([lo_c]), high=jnp.array([hi_c]), squash=True).unsquash(jnp.array([xc])))[0]
                    bad = bad or not (lo_c <= yc <= hi_c)
                o_.replayed = bool(bad)
                o_.model = dict(low=float(lo_c), high=float(hi_c))
            except Exception as ex:  # noqa
                o_.detail = f"replay raised {type(ex).__name__}: {ex}"
        obs.append(o_)
        v, m, sec = smt.satisfiable(pre + [z3.fpEQ(t, F(1.0))], 30)
        obs.append(Ob("twin.saturated tanh reachable", v, sec, cfg, kind="vacuity"))

    elif which in ("squash", "nosquash"):
        sq = which == "squash"
        st = rl.SquashState(low=jnp.zeros((D,), jnp.float32), high=jnp.ones((D,), jnp.float32), squash=sq)
        calls, it, tr, flat, (s_in, x_in), out = setup(lambda s_, x: (s_.unsquash(x), s_.scale(s_.unsquash(x)), s_.unsquash(s_.scale(x))), st, jnp.zeros((D,), jnp.float32))
        alg = it.alg
        u, su, us = out
        tanh, atanh = jx.uf("tanh"), jx.uf("atanh")
        for d in range(D):
            lo, hi, x = s_in.low.v[d], s_in.high.v[d], x_in.v[d]
            pre = [lo < hi]
            def num(o_, v_, m_, what_):
                if v_ == "sat":
                    o_.replayed = _replay_squash(sq, D, what_)
                return o_

            if sq:
                ax = [tanh(x) >= -1, tanh(x) <= 1, atanh(tanh(x)) == x]
                v, m, s = smt.check(pre + ax, z3.And(u.v[d] >= lo, u.v[d] <= hi), tmo)
                obs.append(num(Ob(f"squash: unsquash(x) within [low, high] for every x (axiom |tanh|<=1) [dim {d}]", v, s, cfg, key="squash-bounds",
                                  what="a squashed action lands outside the action bounds"), v, m, "bounds"))
                v, m, s = smt.check(pre + ax, su.v[d] == x, tmo)
                obs.append(num(Ob(f"squash: scale(unsquash(x)) == x (axiom atanh(tanh x)=x; affine halves exact) [dim {d}]", v, s, cfg, key="squash-inverse",
                                  what="scale is not the inverse of unsquash"), v, m, "inv1"))
                y = 2 * (x - lo) / (hi - lo) - 1
                v, m, s = smt.check(pre + [x > lo, x < hi, tanh(atanh(y)) == y], us.v[d] == x, tmo)
                obs.append(num(Ob(f"squash: unsquash(scale(a)) == a for a inside the bounds (axiom tanh(atanh y)=y) [dim {d}]", v, s, cfg, key="squash-inverse2",
                                  what="unsquash is not the inverse of scale inside the bounds"), v, m, "inv2"))
            else:
                clip = z3.If(x < lo, lo, z3.If(x > hi, hi, x))
                v, m, s = smt.check(pre, z3.And(u.v[d] == clip, su.v[d] == clip), tmo)
                obs.append(num(Ob(f"squash=False: unsquash clips to [low, high], scale is the identity [dim {d}]", v, s, cfg, key="nosquash-clip",
                                  what="with squash=False the action is not clipped to the bounds"), v, m, "clip"))
        # the wrappers hand the transformed action to the inner step
        for wname, mk, spec in (("SquashActionWrapper", lambda e: rl.SquashActionWrapper(e, squash=sq), "unsquash"), ("ClipActionWrapper", rl.ClipActionWrapper, "clip")):
            if wname == "ClipActionWrapper" and sq:
                continue
            env = mk(_stub_env(None, D))
            aux = {"bounds": (jnp.zeros((D,), jnp.float32), jnp.ones((D,), jnp.float32))}
            if wname == "SquashActionWrapper":
                aux["act_scaling"] = st
            gs0 = gs_base(aux)
            calls, it, tr, flat, (gs, act), out = setup(env.step, gs0, jnp.zeros((D,), jnp.float32))
            alg = it.alg
            got = inner(calls, "step_obs")["args"][1]
            if wname == "SquashActionWrapper":
                lo_, hi_ = gs.aux["act_scaling"].low, gs.aux["act_scaling"].high
            else:
                lo_, hi_ = gs.aux["bounds"]
            conj = []
            for d in range(D):
                lo, hi, x = lo_.v[d], hi_.v[d], act.v[d]
                if wname == "SquashActionWrapper" and sq:
                    want = (jx.uf("tanh")(x) + 1) * Fraction(1, 2) * (hi - lo) + lo
                else:
                    want = z3.If(x < lo, lo, z3.If(x > hi, hi, x))
                conj.append(got.v[d] == want)
            tanh_range = [z3.And(jx.uf("tanh")(x_) >= -1, jx.uf("tanh")(x_) <= 1) for x_ in act.flat()] if (wname == "SquashActionWrapper" and sq) else []  # axiom |tanh| <= 1
            v, m, s = smt.check([l < h for l, h in zip(lo_.flat(), hi_.flat())] + tanh_range, z3.And(*conj), tmo)
            o_ = Ob(f"{wname}: the inner environment is stepped with the {spec}ed action", v, s, cfg, key=f"{wname}-action",
                    what=f"{wname}.step does not hand the {spec}ed action to the wrapped environment")
            if v == "sat":
                o_.replayed = _replay_action(env, gs0, D, sq and wname == "SquashActionWrapper")
            obs.append(o_)

    elif which in ("norm_obs", "norm_reward"):
        inner_env = _stub_env(B, D)
        gamma = 0.9375
        if which == "norm_obs":
            env = rl.NormalizeVecObservationWrapper(inner_env, clip_obs=10.0)
            ns = rl.NormalizeVec(mean=jnp.zeros((D,), jnp.float32), var=jnp.ones((D,), jnp.float32), count=jnp.float32(1.0), return_val=None, clip=jnp.float32(10.0))
            gs0 = base.GraphState(rng=FrozenDict({"n": key0}), state=FrozenDict({"n": PState(x=jnp.zeros((B,), jnp.float32))}), aux=FrozenDict({"norm_obs": ns}))
        else:
            env = rl.NormalizeVecReward(inner_env, gamma=gamma, clip_reward=10.0)
            ns = rl.NormalizeVec(mean=jnp.float32(0.0), var=jnp.float32(1.0), count=jnp.float32(1.0), return_val=jnp.zeros((B,), jnp.float32), clip=jnp.float32(10.0))
            gs0 = base.GraphState(rng=FrozenDict({"n": key0}), state=FrozenDict({"n": PState(x=jnp.zeros((B,), jnp.float32))}), aux=FrozenDict({"norm_reward": ns}))
        calls, it, tr, flat, (gs, act), out = setup(env.step, gs0, jnp.zeros((B, 1), jnp.float32))
        alg = it.alg
        i_obs, i_rew = inner(calls, "step_obs")["outs"][0], inner(calls, "step_reward")["outs"][0]
        i_term, i_trunc = inner(calls, "step_terminated")["outs"][0], inner(calls, "step_truncated")["outs"][0]
        N0 = gs.aux[which]
        c = N0.count.item()
        pre = [c > 0]
        sqrt = jx.uf("sqrt")
        eps = Fraction(float(np.float32(1e-8)))
        if which == "norm_obs":
            def G_stats(o):
                N1 = o[0].aux[which]
                conj = [N1.count.item() == c + B]
                for d in range(D):
                    xs = [i_obs.v[b, d] for b in range(B)]
                    mu, var = N0.mean.v[d], N0.var.v[d]
                    mu1 = (c * mu + sum(xs)) / (c + B)
                    ex2 = (c * (var + mu * mu) + sum(x * x for x in xs)) / (c + B)
                    conj += [N1.mean.v[d] == mu1, N1.var.v[d] == ex2 - mu1 * mu1]
                return z3.And(*conj)

            def G_norm(o):
                N1, nobs = o[0].aux[which], o[1]
                conj = []
                cl = N1.clip.item()
                for d in range(D):
                    for b in range(B):
                        raw = (i_obs.v[b, d] - N1.mean.v[d]) / sqrt(N1.var.v[d] + eps)
                        conj.append(nobs.v[b, d] == z3.If(raw < -cl, -cl, z3.If(raw > cl, cl, raw)))
                return z3.And(*conj)

            obs.append(cg.decide_oracle("observation normaliser: (count, mean, var) after a step == exact pooled statistics of (previous summary, batch)",
                                        cfg, it, tr, flat, calls, out, pre, G_stats, "normobs-stats",
                                        "running observation mean/variance is not the pooled mean/variance of everything seen", tmo, abstract=True))
            # value law: checked on terms (sqrt uninterpreted); a model is re-checked numerically on the real wrapper
            ph = cg.placeholders(out)
            g_ph = G_norm(ph)
            goal = z3.substitute(g_ph, *cg._subs_pairs(alg, ph, out))
            v, m, s = smt.check(pre + [N0.clip.item() >= 0], goal, tmo)
            o_ = Ob("observation normaliser: returned obs == clip((obs - mean')/sqrt(var'+1e-8))", v, s, cfg, key="normobs-value",
                    what="normalised observation is not (obs-mean)/sqrt(var+eps) clipped")
            if v == "sat":
                o_.replayed = _replay_norm(which, env, gs0, B, D)
            obs.append(o_)
            G_pass = lambda o: z3.And(_eqz(alg, o[2], i_rew), _eqz(alg, o[3], i_term), _eqz(alg, o[4], i_trunc))
            obs.append(cg.decide_oracle("observation normaliser: reward and flags pass through", cfg, it, tr, flat, calls, out, [], G_pass,
                                        "normobs-pass", "the observation normaliser alters reward or done flags", 30))
        else:
            g_ = Fraction(float(np.float32(gamma)))
            rv1 = []
            for b in range(B):
                done = z3.Or(alg.z(i_term.v[b]), alg.z(i_trunc.v[b]))
                rv1.append(N0.return_val.v[b] * g_ * z3.If(done, 0, 1) + i_rew.v[b])
            N1 = out[0].aux[which]
            rew = out[2]
            obs.append(cg.decide_oracle("reward normaliser: discounted return follows gamma*return*(1-done)+reward", cfg, it, tr, flat, calls, out, [],
                                        lambda o: z3.And(*[o[0].aux[which].return_val.v[b] == rv1[b] for b in range(B)]), "normrew-return",
                                        "the running discounted return is not gamma*return*(1-done)+reward", tmo, abstract=True))
            # statistics over the code's own return values (abstracted to fresh variables so that nlsat applies)
            rvars = [z3.Real(f"ret_{b}") for b in range(B)]
            mu, var = N0.mean.item(), N0.var.item()
            mu1 = (c * mu + sum(rvars)) / (c + B)
            ex2 = (c * (var + mu * mu) + sum(x * x for x in rvars)) / (c + B)
            pairs = [(N1.return_val.v[b], rvars[b]) for b in range(B)]
            goal = z3.And(z3.substitute(N1.mean.item(), *pairs) == mu1, z3.substitute(N1.var.item(), *pairs) == ex2 - mu1 * mu1, N1.count.item() == c + B)
            fa = smt.abstract_apps(pre + [goal])
            v, m, s = smt.check(fa[:-1], fa[-1], tmo)
            left = [1 for t_ in smt.free_vars(fa[-1]) if str(t_).startswith("abs")]
            o_ = Ob("reward normaliser: (count, mean, var) == exact pooled statistics of (previous summary, batch of returns)", v, s, cfg,
                    key="normrew-stats", what="running return statistics are not the pooled mean/variance of everything seen",
                    detail=f"oracle terms left after abstraction: {len(left)}")
            if v == "sat":
                o_.replayed = _replay_norm(which, env, gs0, B, D, gamma)
            obs.append(o_)
            cl = N1.clip.item()
            conj = []
            for b in range(B):
                raw = i_rew.v[b] / sqrt(N1.var.item() + eps)
                conj.append(rew.v[b] == z3.If(raw < -cl, -cl, z3.If(raw > cl, cl, raw)))
            v, m, s = smt.check(pre + [cl >= 0], z3.And(*conj), tmo)
            o_ = Ob("reward normaliser: returned reward == clip(reward/sqrt(var'+1e-8)) (no mean subtraction)", v, s, cfg, key="normrew-value",
                    what="normalised reward is not reward/sqrt(var+eps) clipped")
            if v == "sat":
                o_.replayed = _replay_norm(which, env, gs0, B, D, gamma)
            obs.append(o_)
        v, m, s = smt.satisfiable(pre + [out[0].aux[which].mean.flat()[0] != N0.mean.flat()[0]], 20)
        obs.append(Ob("twin.statistics_move", v, s, cfg, kind="vacuity"))

    elif which == "env_step":
        from vlib import fixtures

        nodes, cgr, g = cg.build(cfg["inst"])
        sup = g.supervisor.name
        from vlib.fixtures import POutput, oracle_callback

        class OEnv(rl.Environment):
            def observation_space(self, gs):
                return rl.Box(jnp.array([0.0]), jnp.array([1.0]))

            def action_space(self, gs):
                return rl.Box(jnp.array([0.0]), jnp.array([1.0]))

            def _o(self, tag, gs, shp, dt):
                return jax.pure_callback(oracle_callback(tag, shp, dt), jax.ShapeDtypeStruct(shp, dt), gs.state[sup].x, gs.seq[sup])

            def get_observation(self, gs):
                return self._o("obs", gs, (1,), jnp.float32)

            def get_output(self, gs, action):
                return POutput(y=action[0] + self._o("out", gs, (), jnp.float32))

            # user hooks that write to the supervisor's own state and to another node's state (arbitrary functions of what they read)
            def _hook(self, tag, gs, action):
                new = {}
                for n in gs.state:
                    x = gs.state[n].x
                    new[n] = gs.state[n].replace(x=jax.pure_callback(oracle_callback(f"{tag}_{n}", (), jnp.float32), jax.ShapeDtypeStruct((), jnp.float32), x, action[0]))
                return gs.replace(state=gs.state.copy(new))

            def update_graph_state_pre_step(self, gs, action):
                return self._hook("pre", gs, action) if cfg.get("hooks") else gs

            def update_graph_state_post_step(self, gs, action):
                return self._hook("post", gs, action) if cfg.get("hooks") else gs

            def get_truncated(self, gs):
                return self._o("trunc", gs, (), jnp.bool_)

            def get_terminated(self, gs):
                return self._o("term", gs, (), jnp.bool_)

            def get_reward(self, gs, action):
                return self._o("reward", gs, (), jnp.float32)

        env = OEnv(g)
        gs0 = g.reset(g.init(jax.random.PRNGKey(1)))[0]
        calls = cg.UFCalls()
        it = jx.Interp(callback_handler=calls.handler)
        alg = it.alg
        ta = jx.Traced(lambda s, a: env.step(s, a), gs0, jnp.zeros((1,), jnp.float32))

        def ref(s, a):
            out = env.get_output(s, a)  # from the incoming graph state
            pre = env.update_graph_state_pre_step(s, a)
            st = g.step(pre, pre.step_state[sup], out)[0]  # the supervisor's step state is the one the pre-step hook left behind
            return st, env.update_graph_state_post_step(st, a)

        tb = jx.Traced(ref, gs0, jnp.zeros((1,), jnp.float32))
        flat = ta.sym_inputs(it, "e")
        oa = ta.run(it, flat)
        n_env = len(calls.calls)
        gs_step, ob_ = tb.run(it, flat)
        v, m, s, triv = cg.check_eq(alg, oa[0], ob_, timeout=tmo)
        o_ = Ob("Environment.step: graph part == post_hook(graph.step(pre_hook(gs), supervisor step state of pre_hook(gs), get_output(gs, action)))", v, s, cfg, trivial=triv,
                key="env-step", what="Environment.step does not step the (pre-step-updated) graph with the supervisor's output set from the action")

        def _concrete():
            """real env.step vs the reference composition, eagerly, concrete oracles (deterministic functions of their arguments)"""
            fixtures.ORACLE_RETURNS.clear()
            gs_c = gs0.replace(state=gs0.state.copy({n: gs0.state[n].replace(x=jnp.float32(0.37 + 0.84 * i)) for i, n in enumerate(sorted(gs0.state))}))
            a_c = jnp.array([0.61], jnp.float32)
            fixtures.CALL_LOG.clear()
            real = env.step(gs_c, a_c)
            log = list(fixtures.CALL_LOG)
            st_c, post_c = ref(gs_c, a_c)
            return real, log, st_c, post_c

        if v == "sat":
            try:
                real, log, st_c, post_c = _concrete()
                la, lb = jax.tree_util.tree_leaves(real[0]), jax.tree_util.tree_leaves(post_c)
                o_.replayed = len(la) != len(lb) or any(not np.array_equal(np.asarray(x), np.asarray(y)) for x, y in zip(la, lb))
            except Exception as ex:  # noqa
                o_.detail = f"replay raised {type(ex).__name__}: {ex}"
        obs.append(o_)
        # reward / flags are computed from the stepped graph state, the observation from the post-step-updated one
        conj = []
        for tag in ("reward", "term", "trunc", "obs"):
            c = [c_ for c_ in calls.calls[:n_env] if c_["tag"] == f"oracle_{tag}"][0]
            ref_gs = ob_ if tag == "obs" else gs_step
            conj.append(_eqz(alg, c["args"][0], ref_gs.state[sup].x))
            conj.append(_eqz(alg, c["args"][1], ref_gs.seq[sup]))
        v, m, s = smt.check([], z3.And(*conj), tmo)
        o_ = Ob("Environment.step: reward, done flags and observation are evaluated on the stepped graph state", v, s, cfg, key="env-step-post",
                what="Environment.step evaluates reward/flags/observation on the wrong graph state")
        if v == "sat":
            try:
                real, log, st_c, post_c = _concrete()
                bad = False
                for tag in ("reward", "term", "trunc", "obs"):
                    a_ = [a for t_, a in log if t_ == f"oracle_{tag}"][0]
                    rg = post_c if tag == "obs" else st_c
                    bad = bad or float(a_[0]) != float(rg.state[sup].x) or int(a_[1]) != int(rg.seq[sup])
                o_.replayed = bad
            except Exception as ex:  # noqa
                o_.detail = f"replay raised {type(ex).__name__}: {ex}"
        obs.append(o_)
    return obs


def _replay_squash(sq, D, what):
    """numeric re-check of the squash laws on the real SquashState over a grid of actions and bounds"""
    import jax.numpy as jnp
    from rex import rl

    try:
        for lo, hi in ((-1.0, 1.0), (0.25, 2.0), (-3.0, -1.5)):
            st = rl.SquashState(low=jnp.full((D,), lo, jnp.float32), high=jnp.full((D,), hi, jnp.float32), squash=sq)
            for x in (-40.0, -2.5, -0.5, 0.0, 0.3, 1.75, 40.0):
                xa = jnp.full((D,), x, jnp.float32)
                u = np.asarray(st.unsquash(xa))
                if what in ("bounds",) and not (np.all(u >= lo - 1e-6) and np.all(u <= hi + 1e-6)):
                    return True
                if what == "clip" and not (np.allclose(u, np.clip(x, lo, hi), atol=1e-6) and np.allclose(np.asarray(st.scale(st.unsquash(xa))), np.clip(x, lo, hi), atol=1e-6)):
                    return True
                if what == "inv1" and abs(x) < 3 and not np.allclose(np.asarray(st.scale(st.unsquash(xa))), x, atol=2e-3):
                    return True
            for f in (0.1, 0.5, 0.9):
                a = jnp.full((D,), lo + f * (hi - lo), jnp.float32)
                if what == "inv2" and not np.allclose(np.asarray(st.unsquash(st.scale(a))), np.asarray(a), atol=2e-4):
                    return True
        return False
    except BaseException:  # noqa
        return None


def _replay_action(env, gs0, D, squash):
    """real wrapper step with the logging stub: which action reaches the wrapped environment?"""
    import jax.numpy as jnp
    from vlib import fixtures

    try:
        lo, hi = np.zeros((D,), np.float32), np.ones((D,), np.float32)
        for x in (-3.0, -0.25, 0.4, 0.99, 5.0):
            fixtures.CALL_LOG.clear()
            env.step(gs0, jnp.full((D,), x, jnp.float32))
            got = [a[1] for t, a in fixtures.CALL_LOG if t == "oracle_step_obs"][0]
            want = 0.5 * (np.tanh(x) + 1.0) * (hi - lo) + lo if squash else np.clip(x, lo, hi)
            if not np.allclose(got, want, atol=1e-5):
                return True
        return False
    except BaseException:  # noqa
        return None


def _replay_norm(which, env, gs0, B, D, gamma=None):
    """numeric re-check of the running-moment laws on the real wrapper with the deterministic stub environment"""
    import jax
    import jax.numpy as jnp
    from vlib import fixtures

    try:
        rng = np.random.RandomState(0)
        for trial in range(4):
            N0 = gs0.aux[which]
            N0 = N0.replace(mean=jnp.asarray(rng.uniform(-1, 1, np.shape(N0.mean)), jnp.float32), var=jnp.asarray(rng.uniform(0.5, 2, np.shape(N0.var)), jnp.float32),
                            count=jnp.float32(rng.uniform(0.5, 5)))
            if which == "norm_reward":
                N0 = N0.replace(return_val=jnp.asarray(rng.uniform(-1, 1, (B,)), jnp.float32))
            gs = gs0.replace(aux=gs0.aux.copy({which: N0}), state=gs0.state.copy({"n": gs0.state["n"].replace(x=jnp.asarray(rng.uniform(-1, 1, (B,)), jnp.float32))}))
            fixtures.CALL_LOG.clear()
            fixtures.ORACLE_RETURNS.clear()
            obs_v = rng.uniform(-2, 2, (B, D)).astype(np.float32)
            rew_v = rng.uniform(-2, 2, (B,)).astype(np.float32)
            term_v = rng.uniform(size=(B,)) < 0.5
            fixtures.ORACLE_RETURNS.update({"oracle_step_obs": obs_v, "oracle_step_reward": rew_v, "oracle_step_terminated": term_v,
                                            "oracle_step_truncated": np.zeros((B,), bool)})
            ngs, nobs, rew, term, trunc, info = env.step(gs, jnp.zeros((B, 1), jnp.float32))
            fixtures.ORACLE_RETURNS.clear()
            N1 = ngs.aux[which]
            c = float(N0.count)
            if which == "norm_obs":
                data = obs_v.astype(np.float64)
                mu0, var0 = np.asarray(N0.mean, np.float64), np.asarray(N0.var, np.float64)
            else:
                data = (np.asarray(N0.return_val, np.float64) * gamma * (1 - term_v) + rew_v)[:, None]
                mu0, var0 = np.asarray(N0.mean, np.float64)[None], np.asarray(N0.var, np.float64)[None]
                if not np.allclose(np.asarray(N1.return_val), data[:, 0], atol=1e-5):
                    return True
            mu1 = (c * mu0 + data.sum(0)) / (c + B)
            var1 = (c * (var0 + mu0 ** 2) + (data ** 2).sum(0)) / (c + B) - mu1 ** 2
            if not (np.allclose(np.asarray(N1.mean).reshape(-1), mu1.reshape(-1), atol=1e-4) and np.allclose(np.asarray(N1.var).reshape(-1), var1.reshape(-1), atol=1e-4)
                    and abs(float(N1.count) - (c + B)) < 1e-4):
                return True
            if which == "norm_obs":
                want = np.clip((obs_v - mu1) / np.sqrt(var1 + 1e-8), -float(N1.clip), float(N1.clip))
                if not np.allclose(np.asarray(nobs), want, atol=1e-3):
                    return True
            else:
                want = np.clip(rew_v / np.sqrt(var1[0] + 1e-8), -float(N1.clip), float(N1.clip))
                if not np.allclose(np.asarray(rew), want, atol=1e-3):
                    return True
        return False
    except BaseException:  # noqa
        fixtures.ORACLE_RETURNS.clear()
        return None


def _replay_autoreset_fresh():
    return None


def configs(tier):
    from vlib import cg

    out = [dict(which=w) for w in ("autoreset_fixed", "autoreset_fresh", "log", "squash", "nosquash", "squash_fp32", "log_fp32")]
    out += [dict(which="norm_obs", B=2, D=1), dict(which="norm_reward", B=2, D=1)]
    out += [dict(which="norm_obs", B=1, D=1), dict(which="norm_reward", B=1, D=1)]  # a single vectorised environment (batch statistics of one sample)
    out += [dict(which="env_step", inst=cg.instances("quick", small=True)[0]), dict(which="env_step", inst=cg.instances("quick", small=True)[0], hooks=True)]
    out += [dict(which="stacking", order="log(autoreset(env))"), dict(which="stacking", order="autoreset(log(env))"), dict(which="stacking", order="log(autoreset(env))", fixed_init=False),
            dict(which="stacking", order="autoreset(log(env))", fixed_init=False), dict(which="stacking", order="autoreset(log(autoreset(env)))")]
    if tier == "thorough":
        out += [dict(which="norm_obs", B=3, D=2), dict(which="norm_reward", B=3, D=1), dict(which="squash", D=2), dict(which="autoreset_fixed", D=2)]
        out += [dict(which="env_step", inst=i, hooks=h) for i in cg.instances("quick", small=True)[1:4] for h in (False, True)]
    return out


def run(rep):
    from rex import rl
    from vlib.common import pmap

    rep.technique = ("jaxprs of the live wrapper step functions (AutoReset, Log, Squash, Clip, NormalizeVecObservation, NormalizeVecReward, "
                     "Environment.step) interpreted over z3 terms around an inner environment whose results are uninterpreted functions; z3 "
                     "decides the one-step laws (non-linear real arithmetic for the running moments)")
    rep.encode(rl.Environment.step, rl.AutoResetWrapper.step, rl.LogWrapper.step, rl.SquashState.scale, rl.SquashState.unsquash,
               rl.SquashActionWrapper.step, rl.ClipActionWrapper.step, rl.NormalizeVec.normalize, rl.NormalizeVecObservationWrapper.step,
               rl.NormalizeVecReward.step)
    cfgs = configs(rep.tier)
    rep.configs = cfgs
    rep.bounds = dict(batch=[1, 2, 3], obs_dim=[1, 2], per_query_cap_s=120 if rep.tier == "quick" else 600)
    rep.assumptions = ["floats as reals", "axioms used only where listed in the obligation names: |tanh x| <= 1, atanh(tanh x) = x, tanh(atanh y) = y",
                       "sqrt is an uninterpreted function (both sides apply it to the same argument)",
                       "running statistics are claimed as the exact pooled-moment merge law relative to the wrapper's 1e-4 pseudo-count prior",
                       "auto-reset with fresh init advances one node's rng on every step (split): pass-through is stated modulo that rng"]
    rep.stubs = ["inner environment: every result is an uninterpreted function of (state, action) / of the reset rng"]
    rep.add_all(pmap("props.c19", "worker", cfgs, rep.tier))


def replay(rp):
    return False
