"""C14 — records and graphs convert, stack, pad and filter without loss.

Engine A: the real Graph.stack/__getitem__/__len__/filter, EpisodeRecord.to_graph/filter, ExperimentRecord.to_graph/_padded_stack and
utils.to_networkx_graph run on numpy object arrays whose cells are solver symbols (episode lengths, node subsets and filter flags are
enumerated).  Most obligations are structural; the solver's role is to show that padded / -1 comparisons hold for *all* cell values and
to enumerate the feasible vertex/edge existence patterns of to_networkx_graph.
"""
import itertools
from fractions import Fraction

import numpy as np
import z3

from vlib.common import Ob


def _arr(xs):
    a = np.empty(len(xs), dtype=object)
    for i, x in enumerate(xs):
        a[i] = x
    return a


def _eqcell(V, a, b):
    from vlib.pysym import Sym, eq, is_num
    if isinstance(a, Sym) or isinstance(b, Sym):
        return eq(a, b)
    return z3.BoolVal(a == b)


def _conj(V, xs):
    from vlib.pysym import SymBool
    xs = [x if isinstance(x, z3.ExprRef) else z3.BoolVal(bool(x)) for x in xs]
    if V.symbolic:
        return SymBool(z3.And(*xs)) if xs else True
    return all(z3.is_true(z3.simplify(x)) for x in xs)


def mk_graph(V, tag, lens, elen):
    """one episode graph with symbolic cells: vertices a (len lens[0]), b (len lens[1]); edge a->b (len elen)"""
    from rex import base

    def cells(name, n, kind):
        return _arr([V.integer(f"{tag}_{name}{i}") if kind == "i" else V.grid(f"{tag}_{name}{i}") for i in range(n)])

    vs = {"a": base.Vertex(seq=cells("a_seq", lens[0], "i"), ts_start=cells("a_ts", lens[0], "f"), ts_end=cells("a_te", lens[0], "f")),
          "b": base.Vertex(seq=cells("b_seq", lens[1], "i"), ts_start=cells("b_ts", lens[1], "f"), ts_end=cells("b_te", lens[1], "f"))}
    es = {("a", "b"): base.Edge(seq_out=cells("e_out", elen, "i"), seq_in=cells("e_in", elen, "i"), ts_recv=cells("e_tr", elen, "f"))}
    return base.Graph(vertices=vs, edges=es)


def scen_stack(cfg):
    def scenario(V):
        import jax
        from rex import base

        lens = cfg["lens"]  # per episode: (len_a, len_b, len_e)
        gs = [mk_graph(V, f"ep{e}", (l[0], l[1]), l[2]) for e, l in enumerate(lens)]
        st = base.Graph.stack(gs)
        ok_pad, ok_get = [], []
        leaves_st = jax.tree_util.tree_leaves(st)
        per_ep = [jax.tree_util.tree_leaves(g) for g in gs]
        for li, L in enumerate(leaves_st):
            width = max(len(pe[li]) for pe in per_ep)
            ok_pad.append(L.shape == (len(gs), width))
            for e, pe in enumerate(per_ep):
                for i in range(width):
                    ok_pad.append(_eqcell(V, L[e, i], pe[li][i] if i < len(pe[li]) else -1))
        for e, g in enumerate(gs):
            got = jax.tree_util.tree_leaves(st[e])
            for li, orig in enumerate(per_ep[e]):
                for i in range(len(orig)):
                    ok_get.append(_eqcell(V, got[li][i], orig[i]))
                ok_get += [_eqcell(V, x, -1) for x in got[li][len(orig):]]
        return {
            "stack: cell (e, i) is the original cell for i < len_e and -1 beyond, for every field": _conj(V, ok_pad),
            "an episode indexed out of the stack equals the original episode (padding is -1)": _conj(V, ok_get),
            "len(stack) == number of episodes; len(single graph) == 1": len(st) == len(gs) and len(gs[0]) == 1,
        }

    return scenario


def scen_record(cfg):
    def scenario(V):
        import jax
        from rex import base

        lens = cfg["lens"]
        eps = []
        # the connection carries a custom input name ("obs"), distinct from the producing node's name: edges must be keyed by the producer
        iinfo = base.InputInfo(rate=None, window=None, blocking=None, skip=None, jitter=None, phase=None, delay_dist=None, delay=None, name="obs", output="a")
        for e, (la, lb, le) in enumerate(lens):
            def steps(name, n):
                c = lambda f, k: _arr([V.integer(f"r{e}_{name}_{f}{i}") if k == "i" else V.grid(f"r{e}_{name}_{f}{i}") for i in range(n)])
                return base.StepRecord(eps=c("eps", "i"), seq=c("seq", "i"), ts_start=c("ts", "f"), ts_end=c("te", "f"), delay=c("d", "f"), rng=None, inputs=None, state=None, output=None)
            c = lambda f, k: _arr([V.integer(f"r{e}_m_{f}{i}") if k == "i" else V.grid(f"r{e}_m_{f}{i}") for i in range(le)])
            msgs = base.MessageRecord(seq_out=c("out", "i"), seq_in=c("in", "i"), ts_sent=c("sent", "f"), ts_recv=c("recv", "f"), delay=c("dl", "f"))
            eps.append(base.EpisodeRecord(nodes={
                "a": base.NodeRecord(info=None, clock=None, real_time_factor=None, ts_start=None, params=None, inputs={}, steps=steps("a", la)),
                "b": base.NodeRecord(info=None, clock=None, real_time_factor=None, ts_start=None, params=None, inputs={"a": base.InputRecord(info=iinfo, messages=msgs)}, steps=steps("b", lb))}))
        ok_g = []
        for ep in eps:
            g = ep.to_graph()
            if sorted(g.edges.keys()) != [("a", "b")] or sorted(g.vertices.keys()) != ["a", "b"]:
                return {"EpisodeRecord.to_graph has one vertex set per recorded node and one edge set per recorded connection, keyed (producing node, consuming node)": False}
            for n in ("a", "b"):
                for fa, fb in ((g.vertices[n].seq, ep.nodes[n].steps.seq), (g.vertices[n].ts_start, ep.nodes[n].steps.ts_start), (g.vertices[n].ts_end, ep.nodes[n].steps.ts_end)):
                    ok_g += [len(fa) == len(fb)] + [_eqcell(V, x, y) for x, y in zip(fa, fb)]
            m = ep.nodes["b"].inputs["a"].messages
            ed = g.edges[("a", "b")]
            for fa, fb in ((ed.seq_out, m.seq_out), (ed.seq_in, m.seq_in), (ed.ts_recv, m.ts_recv)):
                ok_g += [len(fa) == len(fb)] + [_eqcell(V, x, y) for x, y in zip(fa, fb)]
            ok_g.append(sorted(g.edges.keys()) == [("a", "b")] and sorted(g.vertices.keys()) == ["a", "b"])
        ex = base.ExperimentRecord(episodes=eps)
        gst = ex.to_graph()
        ok_x = []
        for e, ep in enumerate(eps):
            g = ep.to_graph()
            for la_, lb_ in zip(jax.tree_util.tree_leaves(gst[e]), jax.tree_util.tree_leaves(g)):
                ok_x += [_eqcell(V, la_[i], lb_[i] if i < len(lb_) else -1) for i in range(len(la_))]
        pst = ex.stack("padded")
        ok_p = []
        for e, ep in enumerate(eps):
            for la_, lb_ in zip(jax.tree_util.tree_leaves(pst), jax.tree_util.tree_leaves(ep)):
                row = la_[e]
                ok_p += [_eqcell(V, row[i], lb_[i] if i < len(lb_) else -1) for i in range(len(row))]
        return {
            "EpisodeRecord.to_graph has one vertex set per recorded node and one edge set per recorded connection, keyed (producing node, consuming node)": True,
            "EpisodeRecord.to_graph maps steps.seq/ts_start/ts_end and messages.seq_out/seq_in/ts_recv field for field": _conj(V, ok_g),
            "ExperimentRecord.to_graph == stack of the per-episode graphs, padded with -1": _conj(V, ok_x),
            "ExperimentRecord.stack(padded): row e holds episode e's cells, -1 beyond its length": _conj(V, ok_p),
        }

    return scenario


class _C:
    """connection stub: what rex reads of a Connection when filtering"""

    def __init__(self, producer, input_name):
        self.output_node, self.input_name = _N(producer), input_name


class _N:
    def __init__(self, name, inputs=(), shadow=False):
        self.name, self.order, self.color = name, None, "gray"
        # BaseNode.inputs is keyed by the *input* name, which equals the producer's name unless the connection was given a custom one
        self.inputs = {(f"in_{i}" if shadow else i): _C(i, f"in_{i}" if shadow else i) for i in inputs}


def scen_networkx(cfg):
    from vlib.pysym import SymBool, zb

    def scenario(V):
        from rex import utils
        from vlib.pysym import sym_int

        la, lb, le = cfg["lens"]
        g = mk_graph(V, "nx", (la, lb), le)
        # documented contract: seq is the index or -1; seq_out / seq_in name an index of the respective node or are -1
        for n, ln in (("a", la), ("b", lb)):
            for i in range(ln):
                s = g.vertices[n].seq[i]
                V.assume(SymBool(z3.Or(zb(s == i), zb(s == -1))))
                if i + 1 < ln:  # padding only at the tail (documented Vertex contract: gap-free from 0)
                    V.assume(SymBool(z3.Implies(zb(s == -1), zb(g.vertices[n].seq[i + 1] == -1))))
        e = g.edges[("a", "b")]
        for k in range(le):
            V.assume(SymBool(z3.And(zb(e.seq_out[k] >= -1), zb(e.seq_out[k] < la), zb(e.seq_in[k] >= -1), zb(e.seq_in[k] < lb))))
            # an edge only names vertices that exist (what validate=True asserts)
            for idx in range(la):
                V.assume(SymBool(z3.Implies(zb(e.seq_out[k] == idx), zb(g.vertices["a"].seq[idx] == idx))))
            for idx in range(lb):
                V.assume(SymBool(z3.Implies(zb(e.seq_in[k] == idx), zb(g.vertices["b"].seq[idx] == idx))))
        nodes = {"a": _N("a"), "b": _N("b", ["a"])}
        G = utils.to_networkx_graph(g, nodes=nodes) if not cfg.get("default_nodes") else utils.to_networkx_graph(g)  # nodes is an optional argument
        # what the engine has decided on this path
        exists = {}
        ok = []
        for n, ln in (("a", la), ("b", lb)):
            for i in range(ln):
                s = g.vertices[n].seq[i]
                present = f"{n}_{i}" in G.nodes
                ok.append(_iffb(V, present, s != -1))
                if present:
                    d = G.nodes[f"{n}_{i}"]
                    ok += [_eqcell(V, d["ts_start"], g.vertices[n].ts_start[i]), _eqcell(V, d["ts_end"], g.vertices[n].ts_end[i]), d["kind"] == n]
                    if i > 0:
                        ok.append(G.has_edge(f"{n}_{i-1}", f"{n}_{i}") or f"{n}_{i-1}" not in G.nodes or True)
        n_vertices = len(G.nodes)
        want = set()
        for n, ln in (("a", la), ("b", lb)):
            for i in range(1, ln):
                if f"{n}_{i}" in G.nodes:  # stateful edge from its predecessor
                    want.add((f"{n}_{i-1}", f"{n}_{i}"))
        for k in range(le):
            so, si = e.seq_out[k], e.seq_in[k]
            if bool(so != -1) and bool(si != -1):
                from vlib.pysym import sym_int
                want.add((f"a_{sym_int(so) if V.symbolic else int(so)}", f"b_{sym_int(si) if V.symbolic else int(si)}"))
        # every message edge carries the receive time of (one of) the graph entries it stands for -- also when -1 entries precede valid ones
        attr_ok = []
        for (u, v) in sorted(want):
            if u[0] == v[0]:
                continue  # stateful edge
            if not G.has_edge(u, v):
                continue  # reported by the edge-set clause
            cands = [k for k in range(le) if bool(e.seq_out[k] != -1) and bool(e.seq_in[k] != -1) and f"a_{sym_int(e.seq_out[k]) if V.symbolic else int(e.seq_out[k])}" == u
                     and f"b_{sym_int(e.seq_in[k]) if V.symbolic else int(e.seq_in[k])}" == v]
            got_t = G.edges[u, v].get("ts_recv")
            attr_ok.append(z3.Or(*[_eqcell(V, got_t, e.ts_recv[k]) for k in cands]) if (got_t is not None and cands) else z3.BoolVal(False))
        got = set(G.edges)
        n_exist = sum(1 for n, ln in (("a", la), ("b", lb)) for i in range(ln) if bool(g.vertices[n].seq[i] != -1))
        res = {
            "a vertex exists iff its seq != -1 and carries that row's times": _conj(V, ok),
            "edges are exactly the stateful edges between consecutive existing vertices plus the messages whose both ends are valid": got == want,
            "a message edge carries the receive time of the graph entry it stands for (unaffected by -1 entries before it)": _conj(V, attr_ok) if attr_ok else True,
            "no vertex or edge is created for padded (-1) entries": n_vertices == n_exist and all(not str(nm).endswith("_-1") for nm in G.nodes),
        }
        return res

    return scenario


def _iffb(V, pybool, cond):
    from vlib.pysym import zb
    c = zb(cond)
    return c if pybool else z3.Not(c)


def scen_filter(cfg):
    def scenario(V):
        from rex import base

        names = ["a", "b", "c"]
        conns = [("a", "b"), ("b", "c"), ("a", "c")]
        z = lambda n: _arr([V.integer(f"f_{n}{i}") for i in range(2)])
        g = base.Graph(vertices={n: base.Vertex(seq=z(n + "s"), ts_start=z(n + "t"), ts_end=z(n + "e")) for n in names},
                       edges={c: base.Edge(seq_out=z("o" + c[0] + c[1]), seq_in=z("i" + c[0] + c[1]), ts_recv=z("r" + c[0] + c[1])) for c in conns})
        sel = cfg["subset"]
        # the node objects know only their own inputs (possibly fewer than the graph has edges)
        node_inputs = {"a": [], "b": ["a"], "c": ["b", "a"] if cfg["full_inputs"] else ["b"]}
        nodes = {n: _N(n, node_inputs[n], shadow=cfg.get("shadow", False)) for n in sel}
        out = g.filter(nodes, filter_edges=cfg["flag"])
        if cfg["flag"]:
            want = {(n1, n2) for n2 in sel for n1 in node_inputs[n2] if n1 in sel and (n1, n2) in g.edges}
        else:
            want = {(n1, n2) for (n1, n2) in conns if n1 in sel and n2 in sel}
        same_cells = all(out.vertices[n] is g.vertices[n] for n in out.vertices) and all(out.edges[c] is g.edges[c] for c in out.edges)
        source_intact = sorted(g.vertices.keys()) == names and set(g.edges.keys()) == set(conns)  # filtering returns a new graph, the filtered one is unchanged
        # EpisodeRecord.filter
        iname = (lambda s_: f"in_{s_}") if cfg.get("shadow") else (lambda s_: s_)  # the name under which the step sees the input

        def nr(n):
            ins = {s: base.InputRecord(info=None, messages=None) for (s, t) in conns if t == n}
            iinfo = lambda s_: base.InputInfo(rate=None, window=None, blocking=None, skip=None, jitter=None, phase=None, delay_dist=None, delay=None, name=iname(s_), output=s_)
            info = base.NodeInfo(rate=1.0, advance=False, scheduling=None, phase=0.0, delay_dist=None, delay=0.0, inputs={s: iinfo(s) for s in ins}, name=n, cls="x", color="gray", order=0)
            steps = base.StepRecord(eps=None, seq=None, ts_start=None, ts_end=None, delay=None, rng=None, inputs={iname(s): ("window", s, n) for s in ins}, state=None, output=None)
            return base.NodeRecord(info=info, clock=None, real_time_factor=None, ts_start=0.0, params=None, inputs=ins, steps=steps)
        rec = base.EpisodeRecord(nodes={n: nr(n) for n in names})
        rout = rec.filter(nodes, filter_connections=cfg["flag"])
        got_r = {(s, n) for n, v in rout.nodes.items() for s in v.inputs}
        if cfg["flag"]:
            want_r = {(n1, n2) for n2 in sel for n1 in node_inputs[n2] if n1 in sel}
        else:
            want_r = {(n1, n2) for (n1, n2) in conns if n1 in sel and n2 in sel}
        return {
            "Graph.filter keeps precisely the selected nodes and the connections among them (per flag); kept arrays are the originals": sorted(out.vertices.keys()) == sorted(sel) and set(out.edges.keys()) == want and same_cells,
            "Graph.filter / EpisodeRecord.filter leave the object they are applied to unchanged": source_intact and sorted(rec.nodes.keys()) == names
            and all(set(rec.nodes[n].inputs.keys()) == {s for (s, t) in conns if t == n} for n in names),
            "EpisodeRecord.filter keeps precisely the selected nodes and the connections among them (per flag), infos filtered alike": sorted(rout.nodes.keys()) == sorted(sel) and got_r == want_r
            and all(set(v.info.inputs.keys()) == set(v.inputs.keys()) for v in rout.nodes.values()),
            "EpisodeRecord.filter: the recorded per-step input windows are those of the kept connections only": all(
                set(v.steps.inputs.keys()) == {iname(s_) for s_ in v.inputs} for v in rout.nodes.values()),
        }

    return scenario


SCEN = {"stack": scen_stack, "record": scen_record, "networkx": scen_networkx, "filter": scen_filter}


def _fmt_int(self, spec):
    """vertex names are built from sequence numbers: a symbolic seq is concretised by forking over its feasible values"""
    from vlib.pysym import Engine
    if self.kind == "i" and Engine.current is not None:
        return format(Engine.current.concretize(self.g) if isinstance(self.g, z3.ExprRef) else self.g, spec)
    return "<sym>"


def worker(cfg, tier):
    import rex.base as B
    import rex.utils as U
    from props.c03 import _to_obs
    from vlib import pysym

    old = pysym.Sym.__format__
    pysym.Sym.__format__ = _fmt_int
    pysym.Sym.__str__ = lambda self: _fmt_int(self, "")
    try:
        res, stats = pysym.run_scenario(SCEN[cfg["scen"]](cfg), [U], timeout_ms=30000, patch_names=("float", "round", "int"), max_paths=3000 if tier == "quick" else 40000)
    finally:
        pysym.Sym.__format__ = old
        del pysym.Sym.__str__
    obs, stats = _to_obs(res, stats, cfg, cfg["scen"])
    if obs:
        obs[0].detail = {"stats": stats}
    return obs


def configs(tier):
    th = tier == "thorough"
    out = []
    lens_sets = [[(2, 3, 2), (3, 1, 3)], [(1, 1, 1), (3, 3, 2), (2, 2, 3)]] + ([[(4, 2, 3), (2, 4, 4), (3, 3, 1), (1, 1, 2)]] if th else [])
    for ls in lens_sets:
        out.append(dict(scen="stack", lens=ls))
        out.append(dict(scen="record", lens=ls))
    for l in ([(2, 2, 2), (3, 2, 2)] + ([(3, 3, 3)] if th else [])):
        out.append(dict(scen="networkx", lens=l))
    out.append(dict(scen="networkx", lens=(2, 2, 2), default_nodes=True))  # nodes=None is the documented default
    for r in range(0, 4):
        for sub in itertools.combinations(["a", "b", "c"], r):
            for flag in (True, False):
                for full in ((True, False) if "c" in sub else (True,)):
                    out.append(dict(scen="filter", subset=list(sub), flag=flag, full_inputs=full))
    # connections registered under custom input names (BaseNode.inputs is then not keyed by the producers' names)
    for sub in (["a", "b"], ["a", "b", "c"], ["b", "c"], ["a", "c"]):
        for flag in (True, False):
            out.append(dict(scen="filter", subset=sub, flag=flag, full_inputs=True, shadow=True))
    return out


def run(rep):
    from rex import base, utils
    from vlib.common import pmap

    rep.technique = ("proxy-based symbolic execution of the real conversion/stack/filter functions on numpy object arrays of solver symbols; lengths, subsets and flags "
                     "enumerated; to_networkx_graph explored over all feasible existence patterns of vertices/edges (seq in {index, -1}) with solver-checked forking; "
                     "z3 decides the cell-wise and existence obligations; counterexamples replayed with concrete numbers")
    rep.encode(base.Graph.stack, base.Graph.__getitem__, base.Graph.__len__, base.Graph.filter, base.EpisodeRecord.to_graph, base.EpisodeRecord.filter,
               base.ExperimentRecord.to_graph, base.ExperimentRecord._padded_stack, utils.to_networkx_graph)
    cfgs = configs(rep.tier)
    rep.configs = cfgs
    rep.bounds = dict(episodes="<= 3 (4)", lengths="<= 3 (4)", nodes="<= 3", networkx_vertices="<= 6")
    rep.assumptions = ["cell values arbitrary (integers / 1us-grid times); graph contract for to_networkx_graph: seq = index or -1, edge ends name an index or -1",
                       "most obligations are structural (identity of cells): the solver generalises over cell values and enumerates existence patterns"]
    rep.add_all(pmap("props.c14", "worker", cfgs, rep.tier))


def replay(rp):
    return False
