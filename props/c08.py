"""C08 — input windows read exactly the scheduled messages from the output ring buffers.

Part 1 (ring step invariant, schedules symbolic): one partition (Graph.run) from an arbitrary state whose buffers satisfy
   INV: buffer[n][s mod S_n] = emitted_n(s) for every s in (L_n - S_n, L_n]
with run masks / seqs / window seqs symbolic and assumed *adequate*; proves: every window entry handed to every executed step is
emitted_producer(entry.seq) (default output for negative seq), and INV holds afterwards.
Part 2 (real sizing, payloads symbolic): on concrete compiled instances (sizes from the real Timings.get_buffer_sizes) the whole
rollout is interpreted with symbolic payloads; every window entry must be the symbol emitted at its scheduled seq.
"""
import time

import numpy as np
import z3

from vlib.common import Ob


def _E(kind):
    return z3.Function(f"E_{kind}", z3.IntSort(), z3.RealSort())


def _Ed(kind, s):
    return z3.If(s < 0, z3.Real(f"default_{kind}"), _E(kind)(s))


def _override(tag, j, ci, args):
    # OracleNode returns res[0] -> new state, res[1] -> output payload := emitted_kind(seq)
    if ci == 1:
        kind = tag[len("oracle_step_"):]
        seq = args[0].item()
        return _E(kind)(seq if isinstance(seq, z3.ExprRef) else z3.IntVal(int(seq)))
    return None


def worker_ring(cfg, tier):
    import jax
    from vlib import cg, fixtures, jx, smt

    inst, pad = cfg["inst"], cfg["pad"]
    obs = []
    nodes, cgr, g = cg.build(dict(inst, extra_padding=pad), node_cls=fixtures.OracleNode)
    # base case of the ring invariant: right after init() every slot of every ring (also the spare slots of extra_padding) holds the producer's default output
    import numpy as _np
    gs_init = g.init(jax.random.PRNGKey(1))
    bad0 = []
    for n_, node_ in nodes.items():
        if n_ not in gs_init.buffer:
            continue
        dflt = _np.asarray(node_.init_output(jax.random.PRNGKey(0)).y)
        buf = _np.asarray(gs_init.buffer[n_].y)
        if not all(_np.array_equal(buf[i], dflt) for i in range(buf.shape[0])):
            bad0.append((n_, buf.tolist()))
    obs.append(Ob("ring: base case -- after init() every slot of every output ring buffer holds the producer's default output", "unsat" if not bad0 else "sat", 0, cfg,
                  trivial=True, replayed=True, key="ring-init", detail=str(bad0[:2]),
                  what=f"Graph.init leaves ring-buffer slots that do not hold the default output (padding {pad}): {bad0[:1]} -- a not-yet-filled window entry (seq < 0) then reads a wrong payload"))
    gs0 = g.init(jax.random.PRNGKey(1))
    sup = g.supervisor.name
    per_kind, uniform, n_gen = cg.slot_order(g)
    max_step = g.max_steps
    calls = cg.UFCalls(override=_override)
    it = jx.Interp(callback_handler=calls.handler)
    alg = it.alg
    tr = jx.Traced(g.run, gs0)
    flat = tr.sym_inputs(it, "g")
    gin = tr.in_pytree(flat)[0]
    # replace buffers by their INV form
    S = {n: gs0.buffer[n].y.shape[0] for n in gs0.buffer}
    L = {n: z3.Int(f"L_{n}") for n in S}
    paths = [jax.tree_util.keystr(p) for p, _ in jax.tree_util.tree_flatten_with_path((gs0,))[0]]
    flat = list(flat)
    for n in S:
        i = [k for k, p in enumerate(paths) if p.endswith(f".buffer['{n}'].y")][0]
        cells = jx.obj_array((S[n],))
        for c in range(S[n]):
            cells[c] = _Ed(n, L[n] - ((L[n] - c) % S[n]))
        flat[i] = jx.SA(cells, flat[i].dtype)
    gin = tr.in_pytree(flat)[0]
    out = tr.run(it, flat)
    step_in = gin.step.item()
    assume = [step_in >= 0, step_in <= max_step - 1] + [z3.And(L[n] >= -1, L[n] <= 40) for n in S]
    # execution order: per kind the slots with their round; supervisor last
    order = {k: list(v) for k, v in per_kind.items()}
    order[sup] = [(g._supervisor_slot, n_gen)]
    slot_info = {}
    for kind, slots in order.items():
        for sname, rnd in slots:
            sl = gin.timings_eps.slots[sname]
            slot_info[sname] = dict(kind=kind, round=rnd, run=alg.z(cg.sel(alg, sl.run, step_in).item()) if kind != sup else z3.BoolVal(True),
                                    seq=cg.sel(alg, sl.seq, step_in).item(),
                                    windows={p: cg.sel(alg, w.seq, step_in) for p, w in sl.windows.items()})

    def L_before(p, rnd, inclusive=False):
        cur = L[p]
        for sname, r in order[p]:
            if r < rnd or (inclusive and r <= rnd):
                si = slot_info[sname]
                cur = z3.If(si["run"], si["seq"], cur)
        return cur

    pre = []
    for kind, slots in order.items():  # A1: consecutive seqs
        cur = L[kind]
        for sname, r in slots:
            si = slot_info[sname]
            pre.append(z3.Implies(si["run"], si["seq"] == cur + 1))
            cur = z3.If(si["run"], si["seq"], cur)
    goals_data, goals_meta = [], []
    for kind, slots in order.items():
        cs = calls.by_tag(f"oracle_step_{kind}")
        if len(cs) != len(slots):
            return [Ob("ring: occurrences == slots", "error", 0, cfg, detail=f"{kind}: {len(cs)} vs {len(slots)} (see C06)")]
        for c, (sname, rnd) in zip(cs, slots):
            si = slot_info[sname]
            G = si["run"]
            ai = 4
            for p in sorted(nodes[kind].inputs.keys()):
                conn = nodes[kind].inputs[p]
                pname = conn.output_node.name
                wsched = si["windows"][pname]
                Lp = L_before(pname, rnd)
                for w in wsched.flat():  # A2: adequacy of the schedule for this read
                    pre.append(z3.Implies(G, z3.And(w > Lp - S[pname], w <= Lp)))
                a_seq, a_sent, a_recv, a_data = c["args"][ai:ai + 4]
                ai += 4
                for j in range(a_seq.shape[0]):
                    goals_data.append(z3.Implies(G, alg.z(a_data.v[j], "f") == _Ed(pname, alg.z(a_seq.v[j], "i"))))
                if a_seq.shape[0] == wsched.shape[0]:  # static connection: the step sees the scheduled window itself
                    e = jx.sa_equal(alg, a_seq, wsched)
                    goals_meta.append(z3.Implies(G, e if not isinstance(e, bool) else z3.BoolVal(e)))
    # INV afterwards
    goals_inv = []
    for n in S:
        Lf = L_before(n, 10**6)
        for c in range(S[n]):
            goals_inv.append(alg.z(out.buffer[n].y.v[c], "f") == _Ed(n, Lf - ((Lf - c) % S[n])))
    tmo = 120 if tier == "quick" else 600
    for name, goal, key, what in [
        ("ring: every window entry handed to an executed step == emitted(producer, entry.seq)", goals_data, "ring-read",
         "a step is handed a payload that is not what the producer emitted at the window entry's sequence number"),
        ("ring: the step sees the scheduled window seqs (static connections)", goals_meta, "ring-window-seq",
         "a step is handed window sequence numbers different from its schedule slot's"),
        ("ring: buffer invariant re-established after the partition", goals_inv, "ring-inv",
         "after a partition the output ring buffer does not hold the last S emitted outputs at seq mod S"),
    ]:
        if not goal:
            continue
        v, m, s = smt.check(assume + pre, z3.And(*goal), tmo)
        if v == "unknown" and len(goal) > 1:  # one big conjunction did not finish: decide the conjuncts one by one within the same budget
            v, t_left = "unsat", float(tmo)
            for gi in goal:
                vi, mi, si_ = smt.check(assume + pre, gi, max(5, int(t_left)))
                s += si_
                t_left -= si_
                if vi == "sat":
                    v, m = "sat", mi
                    break
                if vi == "unknown" or t_left <= 0:
                    v = "unknown"
                    break
        heavy = tier == "thorough" and (inst.get("kind") == "three" or inst.get("trainable"))  # largest symbolic states: reported and dropped if the budget runs out
        o = Ob(name, v, s, cfg, key=key, what=what, optional=heavy)
        if v == "sat":
            o.replayed = _replay_instance(dict(inst, extra_padding=pad))
            o.detail = "solver model found for the symbolic-schedule step; replay = part-2 run of the same instance on the real code"
        obs.append(o)
    v, m, s = smt.satisfiable(assume + pre + [si["run"] for si in slot_info.values()], 60)
    obs.append(Ob("ring: twin.all_slots_run_with_adequate_schedule", v, s, cfg, kind="vacuity"))
    return obs


def _instance_obligations(g, nodes, gs0, n_steps=None):
    """Part 2 core: interpret the whole rollout with symbolic payloads; returns (n_entries, mismatches list)."""
    import jax
    from vlib import cg, jx

    calls = cg.UFCalls(override=_override)
    it = jx.Interp(callback_handler=calls.handler)
    alg = it.alg
    n_steps = n_steps or g.max_steps
    tr = jx.Traced(lambda s: g.rollout(s, max_steps=n_steps), gs0)
    flat = tr.concrete_inputs(it)
    paths = [jax.tree_util.keystr(p) for p, _ in jax.tree_util.tree_flatten_with_path((gs0,))[0]]
    for n in gs0.buffer:
        i = [k for k, p in enumerate(paths) if p.endswith(f".buffer['{n}'].y")][0]
        cells = jx.obj_array(flat[i].shape)
        cells.fill(z3.Real(f"default_{n}"))
        flat[i] = jx.SA(cells, flat[i].dtype)
    tr.run(it, flat)
    n_entries, bad = 0, []
    for c in calls.calls:
        if c["guard"] is False:
            continue
        kind = c["tag"][len("oracle_step_"):]
        ai = 4
        for p in sorted(nodes[kind].inputs.keys()):
            pname = nodes[kind].inputs[p].output_node.name
            a_seq, a_sent, a_recv, a_data = c["args"][ai:ai + 4]
            ai += 4
            for j in range(a_seq.shape[0]):
                sq = a_seq.v[j]
                exp = z3.Real(f"default_{pname}") if int(sq) < 0 else _E(pname)(z3.IntVal(int(sq)))
                got = a_data.v[j]
                n_entries += 1
                if not (jx.isz(got) and got.eq(exp)):
                    bad.append((kind, int(c["args"][0].item()), pname, int(sq), str(got)))
    return n_entries, bad, len(calls.calls)


def _replay_instance(inst, eps=0):
    """Real run of the instance with the logging oracle node and identifiable payloads: does some executed step receive a payload
    that is not the one emitted at the window entry's seq?"""
    import jax
    import jax.numpy as jnp
    from vlib import cg, fixtures

    try:
        nodes, cgr, g = cg.build(inst, node_cls=fixtures.OracleNode)
        gs = g.init(jax.random.PRNGKey(1), starting_eps=eps)
        fixtures.CALL_LOG.clear()
        g.rollout(gs)
        log = list(fixtures.CALL_LOG)
        # the gym-style drive reaches the schedule's last row, which rollout() never executes: reset, then max_steps x step
        fixtures.CALL_LOG.clear()
        gs2, _ = g.reset(g.init(jax.random.PRNGKey(1), starting_eps=eps))
        for _ in range(g.max_steps):
            gs2, _ = g.step(gs2)
        log2 = list(fixtures.CALL_LOG)
        return _log_mismatch(nodes, log) or _log_mismatch(nodes, log2)
    except BaseException:  # noqa
        return None


def _log_mismatch(nodes, log):
    """the logging callback returns payload h(args); rebuild emitted values per (node, seq) from the log itself and compare every window entry"""
    if True:
        emitted = {}
        bad = False
        for tag, a in log:
            kind = tag[len("oracle_step_"):]
            ai = 4
            for p in sorted(nodes[kind].inputs.keys()):
                pname = nodes[kind].inputs[p].output_node.name
                a_seq, a_data = a[ai], a[ai + 3]
                ai += 4
                for j in range(len(a_seq)):
                    sq = int(a_seq[j])
                    exp = -1.0 if sq < 0 else emitted.get((pname, sq))
                    if exp is None or abs(float(a_data[j]) - exp) > 1e-5:
                        bad = True
            tg = f"step_{kind}"
            h = (sum(ord(ch) for ch in tg) % 17) * 0.0625
            for i, x in enumerate(a):
                h += float(np.sum(np.asarray(x, dtype=np.float64))) * (0.5 + 0.25 * i + (sum(ord(ch) for ch in tg) % 5) * 0.125)
            if (kind, int(a[0])) in emitted:
                bad = True  # a step with this sequence number ran twice
            emitted[(kind, int(a[0]))] = float(np.float32(2 * 0.125 + h))
        return bad


def worker_instance(cfg, tier):
    import jax
    from vlib import cg, fixtures

    t0 = time.time()
    nodes, cgr, g = cg.build(cfg, node_cls=fixtures.OracleNode)
    obs = []
    for eps in range(g.max_eps):
        gs0 = g.init(jax.random.PRNGKey(1), starting_eps=eps)
        n_entries, bad, n_calls = _instance_obligations(g, nodes, gs0)
        sizes = {n: int(gs0.buffer[n].y.shape[0]) for n in gs0.buffer}
        o = Ob("instance: every window entry of every executed step is the payload symbol emitted at its seq", "unsat" if not bad else "sat",
               time.time() - t0, dict(cfg, eps=eps), detail=f"{n_entries} entries, {n_calls} steps, buffer sizes {sizes}; first mismatches {bad[:3]}",
               key="instance-read", what=f"with the real buffer sizing {sizes} a step reads an overwritten / wrong output: {bad[:2]}", queries=max(n_entries, 1))
        if bad:
            o.replayed = _replay_instance(cfg, eps)
        obs.append(o)
    return obs


def configs(tier):
    from vlib import cg

    ring = []
    insts = cg.instances(tier, small=(tier == "quick"))
    if tier == "quick":
        insts = insts[:6]
    for k, i in enumerate(insts):
        for pad in ((0,) if tier == "quick" else ((0, 1, 2) if k < 3 else ((0, 1) if k < 6 else (0,)))):
            ring.append(dict(inst=i, pad=pad))
    if tier == "quick":
        ring.append(dict(inst=insts[0], pad=1))
        ring.append(dict(inst=insts[3], pad=2))
    inst2 = []
    ratios = [(10, 10), (10, 20), (20, 10), (20, 30)] if tier == "thorough" else [(10, 20), (20, 10), (20, 30)]
    wins = [1, 2, 3] if tier == "thorough" else [1, 3]
    for (r1, r2) in ratios:
        for w in wins:
            for m in (("mcs", "topological", "generational") if tier == "thorough" else ("mcs", "generational")):
                for pad in ((0, 1) if tier == "thorough" else (0,)):
                    inst2.append(dict(kind="two", rate1=r1, rate2=r2, window12=w, window21=max(1, 3 - w), ts_max=0.4, mode=m,
                                      extra_padding=pad))
    inst2.append(dict(kind="two", rate1=10, rate2=20, window12=2, window21=1, ts_max=0.4, mode="mcs", trainable=True, tmax=0.06))
    if tier == "quick":  # spare slots (extra_padding) in the whole-rollout instances as well
        inst2 += [dict(kind="two", rate1=10, rate2=20, window12=3, window21=1, ts_max=0.4, mode="mcs", extra_padding=1),
                  dict(kind="two", rate1=20, rate2=30, window12=1, window21=2, ts_max=0.4, mode="generational", extra_padding=2)]
    # user-supplied (larger than minimal) buffer sizes
    inst2.append(dict(kind="two", rate1=10, rate2=20, window12=3, window21=1, ts_max=0.4, mode="mcs", buffer_sizes={"node2": 7, "node1": [3]}))
    inst2.append(dict(kind="two", rate1=10, rate2=20, window12=2, window21=1, ts_max=0.4, mode="mcs", num_episodes=2, seed=3))
    inst2.append(dict(kind="three", rates=(10, 20, 15), windows=(2, 1, 2), ts_max=0.4, mode="mcs"))
    # a high rate ratio: more than ten slots of one kind per partition (slot names get two-digit indices; uniform generations use the scan path)
    for m in ("generational", "topological") + (("mcs",) if tier == "thorough" else ()):
        inst2.append(dict(kind="two", rate1=5, rate2=60, window12=2, window21=1, ts_max=0.45, mode=m))
    # multi-episode stacks whose episodes have different schedules (both orders: the sizing must cover the worst episode)
    sets = [(0.005, 0.004), (0.105, 0.2), (0.005, 0.1), (0.105, 0.004)]
    import itertools as _it
    pairs = list(_it.permutations(sets, 2))
    for pr in (pairs[:4] if tier == "quick" else pairs):
        inst2.append(dict(kind="hetero", settings=[list(x) for x in pr], mode="mcs", ts_max=0.6))
    # fan-out: one producer read by several consumers that need different ring depths (either order: the sizing must cover the deepest reader)
    fan = [dict(windows=[4, 1]), dict(windows=[1, 4]), dict(windows=[3, 1], rates=[30, 10, 20], mode="generational"),
           dict(windows=[1, 2], delays=[0.004, 0.12]), dict(windows=[2, 1], third=[5, 10]), dict(windows=[2, 5], third=[1, 20], mode="topological")]
    if tier == "thorough":
        fan += [dict(windows=[w1, w2], rates=list(r), mode=m) for (w1, w2) in ((5, 1), (1, 5), (3, 2)) for r in ((20, 10, 10), (20, 15, 10)) for m in ("mcs", "generational")]
        fan += [dict(windows=[4, 1], delays=[0.15, 0.004]), dict(windows=[1, 1], delays=[0.004, 0.21], third=[3, 5])]
    for f_ in fan:
        inst2.append(dict(dict(kind="fanout", mode="mcs", ts_max=0.5), **f_))
    inst2 += cg.random_instances(tier)
    if tier == "thorough":
        for tri in list(_it.permutations(sets, 3))[:8]:
            inst2.append(dict(kind="hetero", settings=[list(x) for x in tri], mode="generational", ts_max=0.6))
    if tier == "thorough":
        inst2.append(dict(kind="three", rates=(10, 30, 15), windows=(3, 2, 1), ts_max=0.4, mode="generational", extra_padding=1))
        inst2.append(dict(kind="two", rate1=10, rate2=20, window12=2, window21=1, ts_max=0.4, mode="topological", trainable=True, tmax=0.11))
    return ring, inst2


def run(rep):
    from rex import base, graph, partition_runner
    from vlib.common import pmap

    rep.technique = ("part 1: jaxpr of Graph.run interpreted from a symbolic state whose buffers are in invariant form, schedules (run masks, seqs, "
                     "window seqs) symbolic and assumed adequate; z3 decides read == emitted(producer, seq) and invariant preservation. "
                     "part 2: whole rollout of concrete compiled instances interpreted with symbolic payloads (term identity)")
    rep.encode(partition_runner.update_output, partition_runner.make_update_inputs, partition_runner.make_run_partition_excl_supervisor,
               partition_runner.make_update_state, graph.Graph.run_supervisor, base.Timings.get_buffer_sizes, base.Timings.get_output_buffer)
    ring, inst2 = configs(rep.tier)
    rep.configs = ring + inst2
    rep.bounds = dict(ring_configs=len(ring), instance_configs=len(inst2), buffer_padding=sorted({c["pad"] for c in ring}),
                      L_range="-1..40")
    rep.assumptions = [
        "part 1 assumes an adequate schedule: executed steps of a node have consecutive seqs continuing the last executed one; every window seq read "
        "in a round lies in (L-S, L] of its producer at that round",
        "part 2 quantifies over payload values only; the instance family is an enumeration",
        "emitted_n(s) for s<0 is the node's default output",
    ]
    obs = pmap("props.c08", "worker_ring", ring, rep.tier)
    obs += pmap("props.c08", "worker_instance", inst2, rep.tier)
    rep.add_all(obs)


def replay(rp):
    return False
