"""C15 — delay distributions give non-negative, replayable samples and monotone quantiles (restricted claim).

Engine B: StaticDist.sample/reset around an oracle distribution (arbitrary real samples), TrainableDist sample/mean/quantile,
StaticDist.quantile for Deterministic and Normal (ndtri as an uninterpreted increasing function).
Engine A part (default expected delay = quantile(0.99), negative rejected) lives with C16's node harness.
Outside: mixture quantiles (numpy grid search over a distrax CDF), agreement of the Normal quantile with the CDF, the GMM estimator.
"""
import time
from fractions import Fraction

import numpy as np
import z3

from vlib.common import Ob


class OracleDist:
    """duck-typed stand-in for a distrax distribution: samples are an arbitrary (oracle) function of the seed"""

    def __init__(self, tag="dist"):
        self.tag = tag

    def sample(self, sample_shape=(), seed=None):
        import jax
        import jax.numpy as jnp
        from vlib.fixtures import oracle_callback

        shp = tuple(sample_shape) if isinstance(sample_shape, (tuple, list)) else (sample_shape,)
        return jax.pure_callback(oracle_callback(f"sample_{self.tag}", shp), jax.ShapeDtypeStruct(shp, jnp.float32), seed)

    def mean(self):
        return 0.0


def worker(cfg, tier):
    import distrax
    import jax
    import jax.numpy as jnp
    from rex.base import StaticDist, TrainableDist
    from vlib import cg, jx, smt

    which = cfg["which"]
    obs = []
    tmo = 60
    if which == "static_sample":
        n = cfg["n"]
        d0 = StaticDist(rng=jax.random.PRNGKey(0), dist=OracleDist())
        calls = cg.UFCalls()
        it = jx.Interp(callback_handler=calls.handler)
        alg = it.alg
        tr = jx.Traced(lambda d: d.sample(n), d0)
        flat = tr.sym_inputs(it, "d")
        din = tr.in_pytree(flat)[0]
        new_d, samples = tr.run(it, flat)
        c = calls.calls[0]
        k_in = jx.Key.mk(*[alg.z(x, "i") for x in din.rng.flat()])
        k_out = jx.Key.mk(*[alg.z(x, "i") for x in new_d.rng.flat()])
        k_seed = jx.Key.mk(*[alg.z(x, "i") for x in c["args"][0].flat()])
        raw = c["outs"][0].flat()
        goals = {
            "every sampled delay is non-negative (for arbitrary underlying samples)": z3.And(*[s >= 0 for s in samples.flat()]),
            "samples are the underlying samples clipped at zero": z3.And(*[s == z3.If(r < 0, 0, r) for s, r in zip(samples.flat(), raw)]),
            "the returned distribution carries split(rng)[0]; samples are drawn from split(rng)[1] only": z3.And(
                k_out == jx.f_split(k_in, z3.IntVal(0)), k_seed == jx.f_split(k_in, z3.IntVal(1))),
        }
        for name, g in goals.items():
            v, m, s = smt.check([], g, tmo)
            o = Ob(f"StaticDist.sample[{n}]: {name}", v, s, cfg, key="static-sample", what=f"StaticDist.sample violates: {name}")
            if v == "sat":
                o.replayed = _replay_static(n)
            obs.append(o)
        # replay: reset(k) then sample twice == same from a second reset(k)
        tr2 = jx.Traced(lambda d, k: (d.reset(k).sample(n)[1], d.reset(k).sample(n)[0].sample(n)[1], d.reset(k).sample(n)[1], d.reset(k).sample(n)[0].sample(n)[1]), d0, jax.random.PRNGKey(1))
        fl2 = tr2.sym_inputs(it, "r")
        a1, a2, b1, b2 = tr2.run(it, fl2)
        e = jx.sa_equal(alg, a1, b1), jx.sa_equal(alg, a2, b2)
        v = "unsat" if all(x is True for x in e) else smt.check([], z3.And(*[z3.BoolVal(x) if isinstance(x, bool) else x for x in e]), tmo)[0]
        obs.append(Ob(f"StaticDist.reset(k) replays the same delays [{n}]", v, 0, cfg, trivial=all(x is True for x in e), key="static-replay",
                      what="resetting a StaticDist to the same rng does not replay the same delays", replayed=None))
        e2 = jx.sa_equal(alg, a1, a2)
        v, m, s = smt.satisfiable([z3.Not(e2 if not isinstance(e2, bool) else z3.BoolVal(e2))], 10)
        obs.append(Ob("twin.consecutive batches may differ (rng state advances)", v, s, cfg, kind="vacuity"))
        v, m, s = smt.satisfiable([raw[0] < 0], 10)
        obs.append(Ob("twin.negative underlying sample reachable", v, s, cfg, kind="vacuity"))

    elif which == "trainable":
        dmin, dmax = cfg["min"], cfg["max"]
        dd = TrainableDist(alpha=jnp.float32(0.5), min=float(dmin), max=float(dmax), interp="zoh")
        it = jx.Interp()
        tr = jx.Traced(lambda d: (d.sample(3)[1], d.mean(), d.quantile(0.1), d.quantile(0.9), d.sample(3)[0].alpha, d.reset(jax.random.PRNGKey(0)).alpha), dd)
        flat = tr.sym_inputs(it, "t")
        lo = Fraction(float(np.float32(dmin)))
        hi = lo + Fraction(float(np.float32(float(dmax) - float(dmin))))

        def g(i, o):
            a = i[0].alpha.item()
            s, mu, q1, q9, a2, a3 = o
            d = lo + a * (hi - lo)
            return z3.And(*[x == d for x in s.flat()], mu.item() == d, q1.item() == d, q9.item() == d, a2.item() == a, a3.item() == a, d >= lo, d <= hi)

        a = tr.in_pytree(flat)[0].alpha.item()
        obs.append(cg.prove_with_replay("TrainableDist: sample == mean == quantile(q) == min + alpha*(max-min) in [min, max]; sampling/reset leave it unchanged",
                                        cfg, it, tr, flat, [a >= 0, a <= 1], g, "trainable-dist", "TrainableDist sample/mean/quantile disagree or leave [min, max]", grid=(0, 1)))

    elif which == "deterministic_quantile":
        it = jx.Interp()
        tr = jx.Traced(lambda loc, q: (StaticDist.create(distrax.Deterministic(loc)).quantile(q), StaticDist.create(distrax.Deterministic(loc)).mean()), jnp.float32(0.1), jnp.zeros((2,), jnp.float32))
        flat = tr.sym_inputs(it, "q")
        obs.append(cg.prove_with_replay("Deterministic: quantile(q) == mean == loc for every q (hence non-decreasing)", cfg, it, tr, flat, [],
                                        lambda i, o: z3.And(*[x == i[0].item() for x in o[0].flat()], o[1].item() == i[0].item()),
                                        "det-quantile", "quantile of a deterministic delay is not its value"))

    elif which == "normal_quantile":
        import jax.scipy.special as jss
        from vlib.fixtures import oracle_callback

        orig = jss.ndtri
        jss.ndtri = lambda q: jax.pure_callback(oracle_callback("ndtri", jnp.shape(q)), jax.ShapeDtypeStruct(jnp.shape(q), jnp.float32), q, vmap_method="sequential")
        try:
            calls = cg.UFCalls()
            it = jx.Interp(callback_handler=calls.handler)
            tr = jx.Traced(lambda loc, scale, q1, q2: (StaticDist.create(distrax.Normal(loc, scale)).quantile(q1), StaticDist.create(distrax.Normal(loc, scale)).quantile(q2)),
                           jnp.float32(0.1), jnp.float32(0.1), jnp.float32(0.2), jnp.float32(0.3))
            flat = tr.sym_inputs(it, "n")
            loc, scale, q1, q2 = [x.item() for x in tr.in_pytree(flat)]
            o1, o2 = [x.item() for x in tr.run(it, flat)]
        finally:
            jss.ndtri = orig
        f1, f2 = calls.calls[0]["outs"][0].item(), calls.calls[1]["outs"][0].item()
        v, m, s = smt.check([], z3.And(o1 == f1 * scale + loc, o2 == f2 * scale + loc), tmo)
        obs.append(Ob("Normal: quantile(q) == loc + scale * ndtri(q)", v, s, cfg, key="normal-quantile", what="Normal quantile is not loc + scale*ndtri(q)", replayed=None))
        v, m, s = smt.check([scale >= 0, z3.Implies(q1 < q2, f1 < f2), z3.Implies(q1 == q2, f1 == f2)], z3.Implies(q1 <= q2, o1 <= o2), tmo)
        obs.append(Ob("Normal: quantile non-decreasing in q (axiom: ndtri strictly increasing; scale >= 0)", v, s, cfg, key="normal-monotone",
                      what="Normal quantile is not monotone in q", replayed=None))
    return obs


def _replay_static(n):
    import distrax
    import jax
    import jax.numpy as jnp
    from rex.base import StaticDist

    try:
        d = StaticDist.create(distrax.Normal(loc=-0.5, scale=1.0)).reset(jax.random.PRNGKey(3))
        d2, s = d.sample(64)
        k0, k1 = jax.random.split(jax.random.PRNGKey(3), 2)
        raw = distrax.Normal(loc=-0.5, scale=1.0).sample(sample_shape=64, seed=k1)
        return bool((np.asarray(s) < 0).any()) or not np.array_equal(np.asarray(d2.rng), np.asarray(k0)) or not np.allclose(np.asarray(s), np.clip(np.asarray(raw), 0, None))
    except BaseException:  # noqa
        return None


def configs(tier):
    return [dict(which="static_sample", n=1), dict(which="static_sample", n=3), dict(which="trainable", min=0.0, max=0.03125),
            dict(which="trainable", min=0.001, max=0.0235), dict(which="deterministic_quantile"), dict(which="normal_quantile")]


def run(rep):
    from rex import base
    from vlib.common import pmap

    rep.technique = ("jaxprs of StaticDist.sample/reset/quantile and TrainableDist.sample/mean/quantile interpreted over z3 terms; the wrapped distrax "
                     "distribution is an oracle (samples = uninterpreted function of the seed), PRNG split as uninterpreted function; z3 decides the clauses")
    rep.encode(base.StaticDist.sample, base.StaticDist.reset, base.StaticDist.quantile, base.TrainableDist.sample, base.TrainableDist.mean, base.TrainableDist.quantile)
    cfgs = configs(rep.tier)
    rep.configs = cfgs
    rep.bounds = dict(sample_shapes=[1, 3])
    rep.assumptions = ["the underlying distribution returns arbitrary real samples as a function of its seed", "ndtri uninterpreted, axiom: strictly increasing",
                       "RESTRICTED: mixture quantiles (numpy grid search over a distrax CDF), agreement of the Normal quantile with the CDF and the GMM estimator "
                       "(an optimisation loop) are not encodable and not claimed; default expected delay = quantile(0.99) >= 0 is checked with C16's node harness"]
    rep.stubs = ["jax.scipy.special.ndtri -> oracle callback during tracing of the Normal quantile"]
    rep.add_all(pmap("props.c15", "worker", cfgs, rep.tier))


def replay(rp):
    return False
