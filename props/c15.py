"""C15 — delay distributions give non-negative, replayable samples and monotone quantiles (restricted claim).

Engine B: StaticDist.sample/reset around an oracle distribution (arbitrary real samples), TrainableDist sample/mean/quantile,
StaticDist.quantile for Deterministic and Normal (ndtri as an uninterpreted increasing function).
Engine A part (default expected delay = quantile(0.99), negative rejected) lives with C16's node harness.
Outside: mixture quantiles (numpy grid search over a distrax CDF), agreement of the Normal quantile with the CDF, the GMM estimator.
"""
import time
from fractions import Fraction

import numpy as np
import z3

from vlib.common import Ob


class OracleDist:
    """duck-typed stand-in for a distrax distribution: samples are an arbitrary (oracle) function of the seed"""

    def __init__(self, tag="dist"):
        self.tag = tag

    def sample(self, sample_shape=(), seed=None):
        import jax
        import jax.numpy as jnp
        from vlib.fixtures import oracle_callback

        shp = tuple(sample_shape) if isinstance(sample_shape, (tuple, list)) else (sample_shape,)
        return jax.pure_callback(oracle_callback(f"sample_{self.tag}", shp), jax.ShapeDtypeStruct(shp, jnp.float32), seed)

    def mean(self):
        return 0.0


def worker(cfg, tier):
    import distrax
    import jax
    import jax.numpy as jnp
    from rex.base import StaticDist, TrainableDist
    from vlib import cg, jx, smt

    which = cfg["which"]
    obs = []
    tmo = 60
    if which == "static_sample":
        n = cfg["n"]
        d0 = StaticDist(rng=jax.random.PRNGKey(0), dist=OracleDist())
        calls = cg.UFCalls()
        it = jx.Interp(callback_handler=calls.handler)
        alg = it.alg
        tr = jx.Traced(lambda d: d.sample(n), d0)
        flat = tr.sym_inputs(it, "d")
        din = tr.in_pytree(flat)[0]
        new_d, samples = tr.run(it, flat)
        c = calls.calls[0]
        k_in = jx.Key.mk(*[alg.z(x, "i") for x in din.rng.flat()])
        k_out = jx.Key.mk(*[alg.z(x, "i") for x in new_d.rng.flat()])
        k_seed = jx.Key.mk(*[alg.z(x, "i") for x in c["args"][0].flat()])
        raw = c["outs"][0].flat()
        goals = {
            "every sampled delay is non-negative (for arbitrary underlying samples)": z3.And(*[s >= 0 for s in samples.flat()]),
            "samples are the underlying samples clipped at zero": z3.And(*[s == z3.If(r < 0, 0, r) for s, r in zip(samples.flat(), raw)]),
            "the returned distribution carries split(rng)[0]; samples are drawn from split(rng)[1] only": z3.And(
                k_out == jx.f_split(k_in, z3.IntVal(0)), k_seed == jx.f_split(k_in, z3.IntVal(1))),
        }
        for name, g in goals.items():
            v, m, s = smt.check([], g, tmo)
            o = Ob(f"StaticDist.sample[{n}]: {name}", v, s, cfg, key="static-sample", what=f"StaticDist.sample violates: {name}")
            if v == "sat":
                o.replayed = _replay_static(n)
            obs.append(o)
        # replay: reset(k) then sample twice == same from a second reset(k)
        tr2 = jx.Traced(lambda d, k: (d.reset(k).sample(n)[1], d.reset(k).sample(n)[0].sample(n)[1], d.reset(k).sample(n)[1], d.reset(k).sample(n)[0].sample(n)[1]), d0, jax.random.PRNGKey(1))
        fl2 = tr2.sym_inputs(it, "r")
        a1, a2, b1, b2 = tr2.run(it, fl2)
        e = jx.sa_equal(alg, a1, b1), jx.sa_equal(alg, a2, b2)
        v = "unsat" if all(x is True for x in e) else smt.check([], z3.And(*[z3.BoolVal(x) if isinstance(x, bool) else x for x in e]), tmo)[0]
        obs.append(Ob(f"StaticDist.reset(k) replays the same delays [{n}]", v, 0, cfg, trivial=all(x is True for x in e), key="static-replay",
                      what="resetting a StaticDist to the same rng does not replay the same delays", replayed=None))
        e2 = jx.sa_equal(alg, a1, a2)
        v, m, s = smt.satisfiable([z3.Not(e2 if not isinstance(e2, bool) else z3.BoolVal(e2))], 10)
        obs.append(Ob("twin.consecutive batches may differ (rng state advances)", v, s, cfg, kind="vacuity"))
        v, m, s = smt.satisfiable([raw[0] < 0], 10)
        obs.append(Ob("twin.negative underlying sample reachable", v, s, cfg, kind="vacuity"))

    elif which == "trainable":
        dmin, dmax = cfg["min"], cfg["max"]
        dd = TrainableDist(alpha=jnp.float32(0.5), min=float(dmin), max=float(dmax), interp="zoh")
        it = jx.Interp()
        tr = jx.Traced(lambda d: (d.sample(3)[1], d.mean(), d.quantile(0.1), d.quantile(0.9), d.sample(3)[0].alpha, d.reset(jax.random.PRNGKey(0)).alpha), dd)
        flat = tr.sym_inputs(it, "t")
        lo = Fraction(float(np.float32(dmin)))
        hi = lo + Fraction(float(np.float32(float(dmax) - float(dmin))))

        def g(i, o):
            a = i[0].alpha.item()
            s, mu, q1, q9, a2, a3 = o
            d = lo + a * (hi - lo)
            return z3.And(*[x == d for x in s.flat()], mu.item() == d, q1.item() == d, q9.item() == d, a2.item() == a, a3.item() == a, d >= lo, d <= hi)

        a = tr.in_pytree(flat)[0].alpha.item()
        obs.append(cg.prove_with_replay("TrainableDist: sample == mean == quantile(q) == min + alpha*(max-min) in [min, max]; sampling/reset leave it unchanged",
                                        cfg, it, tr, flat, [a >= 0, a <= 1], g, "trainable-dist", "TrainableDist sample/mean/quantile disagree or leave [min, max]", grid=(0, 1)))

        # the route by which a requested (learned) delay becomes alpha: BaseNode.init_inputs does dist.replace(alpha=dist.get_alpha(delay)); the requested
        # delay is an unconstrained parameter (an optimiser may push it below min or above max), the sampled delay must still lie in [min, max]
        it2 = jx.Interp()

        def via_alpha(d, delay):
            d2 = d.replace(alpha=d.get_alpha(delay))
            return d2.sample(2)[1], d2.mean(), d2.quantile(0.99), d2.alpha

        tr2 = jx.Traced(via_alpha, dd, jnp.float32(0.01))
        flat2 = tr2.sym_inputs(it2, "u")

        def g2(i, o):
            req = i[1].item()
            s, mu, q, a = o
            want = z3.If(req < lo, lo, z3.If(req > hi, hi, req))
            return z3.And(a.item() >= 0, a.item() <= 1, *[z3.And(x >= lo, x <= hi, x >= 0, x == want) for x in list(s.flat()) + [mu.item(), q.item()]])

        obs.append(cg.prove_with_replay("TrainableDist: for ANY requested delay, replace(alpha=get_alpha(delay)) samples clip(delay, min, max): never negative, never outside [min, max]",
                                        cfg, it2, tr2, flat2, [], g2, "trainable-get-alpha", "a requested delay outside [min, max] yields sampled delays outside [min, max] (negative below min)",
                                        grid=(-1, 1)))

    elif which == "deterministic_quantile":
        it = jx.Interp()
        tr = jx.Traced(lambda loc, q: (StaticDist.create(distrax.Deterministic(loc)).quantile(q), StaticDist.create(distrax.Deterministic(loc)).mean()), jnp.float32(0.1), jnp.zeros((2,), jnp.float32))
        flat = tr.sym_inputs(it, "q")
        obs.append(cg.prove_with_replay("Deterministic: quantile(q) == mean == loc for every q (hence non-decreasing)", cfg, it, tr, flat, [],
                                        lambda i, o: z3.And(*[x == i[0].item() for x in o[0].flat()], o[1].item() == i[0].item()),
                                        "det-quantile", "quantile of a deterministic delay is not its value"))

    elif which == "normal_quantile":
        import jax.scipy.special as jss
        from vlib.fixtures import oracle_callback

        orig = jss.ndtri
        jss.ndtri = lambda q: jax.pure_callback(oracle_callback("ndtri", jnp.shape(q)), jax.ShapeDtypeStruct(jnp.shape(q), jnp.float32), q, vmap_method="sequential")
        try:
            calls = cg.UFCalls()
            it = jx.Interp(callback_handler=calls.handler)
            tr = jx.Traced(lambda loc, scale, q1, q2: (StaticDist.create(distrax.Normal(loc, scale)).quantile(q1), StaticDist.create(distrax.Normal(loc, scale)).quantile(q2)),
                           jnp.float32(0.1), jnp.float32(0.1), jnp.float32(0.2), jnp.float32(0.3))
            flat = tr.sym_inputs(it, "n")
            loc, scale, q1, q2 = [x.item() for x in tr.in_pytree(flat)]
            o1, o2 = [x.item() for x in tr.run(it, flat)]
        finally:
            jss.ndtri = orig
        f1, f2 = calls.calls[0]["outs"][0].item(), calls.calls[1]["outs"][0].item()
        v, m, s = smt.check([], z3.And(o1 == f1 * scale + loc, o2 == f2 * scale + loc), tmo)
        obs.append(Ob("Normal: quantile(q) == loc + scale * ndtri(q)", v, s, cfg, key="normal-quantile", what="Normal quantile is not loc + scale*ndtri(q)", replayed=None))
        v, m, s = smt.check([scale >= 0, z3.Implies(q1 < q2, f1 < f2), z3.Implies(q1 == q2, f1 == f2)], z3.Implies(q1 <= q2, o1 <= o2), tmo)
        obs.append(Ob("Normal: quantile non-decreasing in q (axiom: ndtri strictly increasing; scale >= 0)", v, s, cfg, key="normal-monotone",
                      what="Normal quantile is not monotone in q", replayed=None))
    return obs


def _replay_static(n):
    import distrax
    import jax
    import jax.numpy as jnp
    from rex.base import StaticDist

    try:
        d = StaticDist.create(distrax.Normal(loc=-0.5, scale=1.0)).reset(jax.random.PRNGKey(3))
        d2, s = d.sample(64)
        k0, k1 = jax.random.split(jax.random.PRNGKey(3), 2)
        raw = distrax.Normal(loc=-0.5, scale=1.0).sample(sample_shape=64, seed=k1)
        return bool((np.asarray(s) < 0).any()) or not np.array_equal(np.asarray(d2.rng), np.asarray(k0)) or not np.allclose(np.asarray(s), np.clip(np.asarray(raw), 0, None))
    except BaseException:  # noqa
        return None


class _StubDistrax:
    """records what GMMEstimator.get_dist builds (attribute names as in distrax, so the same scenario reads real distrax objects in the replay)"""

    class Normal:
        def __init__(self, loc, scale):
            self.loc, self.scale = loc, scale

    class Categorical:
        def __init__(self, probs):
            self.probs = probs

    class MixtureSameFamily:
        def __init__(self, mixture_distribution, components_distribution):
            self.mixture_distribution, self.components_distribution = mixture_distribution, components_distribution

    class Deterministic:
        def __init__(self, loc):
            self.loc = loc


class _StubBase:
    class StaticDist:
        def __init__(self, dist):
            self.dist = dist

        @classmethod
        def create(cls, dist):
            return cls(dist)


def scen_estimator(cfg):
    """GMMEstimator._rescale / get_dist on an estimator whose fitted (normalised) parameters, data mean and data std are solver variables:
    the exported mixture is the fitted one mapped back to the units of the data (loc -> loc*std + mean, log-scale -> log-scale + log std), its
    weights are the renormalised weights of the heaviest components (a lightest prefix with total weight < 1 - percentile is dropped), they
    sum to one and all scales are positive; constant data gives a deterministic distribution at the data mean."""
    K = cfg["K"]

    def scenario(V):
        import numpy as onp
        from rex.gmm_estimator import GMMEstimator
        from vlib import pysym
        from vlib.pysym import SymBool, T, zb

        est = object.__new__(GMMEstimator)
        est.name, est.verbose, est.threshold = "verif", False, 1e-7
        if cfg.get("deterministic"):
            mu = V.anyreal("mean", lo=0, hi=1)

            class _Data:
                def mean(self, dtype=None):
                    return mu if V.symbolic else onp.float32(mu)

            est.is_deterministic, est.data, est.final_state_norm = True, _Data(), None
            d = est.get_dist().dist
            ok = (type(d).__name__ == "Deterministic")
            return {"constant data: a deterministic distribution at the data mean": ok and (SymBool(T(d.loc) == T(mu)) if V.symbolic else abs(float(d.loc) - mu) <= 1e-6 * max(1.0, abs(mu)))}
        std = V.anyreal("std", lo=Fraction(1, 10**7), hi=10)
        mean = V.anyreal("mean", lo=0, hi=10)
        lw = [V.anyreal(f"lw{i}", lo=-4, hi=4) for i in range(K)]
        m = [V.anyreal(f"m{i}", lo=-4, hi=4) for i in range(K)]
        ls = [V.anyreal(f"ls{i}", lo=-4, hi=2) for i in range(K)]
        pct = cfg["percentile"]
        if V.symbolic:
            arr = lambda xs: onp.array(xs, dtype=object)
            E, L = (lambda x: pysym.ObjNumpy._s(x).exp()), (lambda x: pysym.ObjNumpy._s(x).log())
        else:
            import jax.numpy as jnp
            arr = lambda xs: jnp.asarray(xs, jnp.float32)
            E, L = (lambda x: float(onp.exp(onp.float64(x)))), (lambda x: float(onp.log(onp.float64(x))))
        sc0 = (lambda x: onp.array(x, dtype=object)) if V.symbolic else (lambda x: x)  # 0-d object arrays: numpy broadcasting applies
        est.is_deterministic, est._std, est._mean, est.final_state_norm = False, sc0(std), sc0(mean), "state"
        est.adam_get_params = lambda st: (arr(lw), arr([0] * K), arr(m), arr(ls))
        d = est.get_dist(pct).dist
        w = list(d.mixture_distribution.probs)
        loc, sc = list(d.components_distribution.loc), list(d.components_distribution.scale)
        # the specification, computed independently (ordering facts are decided on this path)
        e = [E(x) for x in lw]
        tot = sum(e[1:], e[0])
        wn = [x / tot for x in e]
        order = sorted(range(K), key=lambda i: 0)  # placeholder, replaced below
        idx = []
        for i in range(K):  # stable ascending by weight
            k = len(idx)
            while k > 0 and bool(wn[i] < wn[idx[k - 1]]):
                k -= 1
            idx.insert(k, i)
        cum, drop = 0, 0
        for j in idx:
            if bool(cum + wn[j] < 1 - pct):
                drop, cum = drop + 1, cum + wn[j]
            else:
                break
        keep = idx[drop:]
        ktot = sum([wn[j] for j in keep[1:]], wn[keep[0]])
        res = {"_std": std, "_kept": len(keep)}
        if len(w) != len(keep):
            res["the exported mixture keeps the heaviest components: a lightest prefix with total weight < 1 - percentile is dropped, at least one stays"] = False
            return res
        res["the exported mixture keeps the heaviest components: a lightest prefix with total weight < 1 - percentile is dropped, at least one stays"] = len(keep) >= 1
        if V.symbolic:
            eqs_w = [T(w[i]) == T(wn[j] / ktot) for i, j in enumerate(keep)]
            eqs_l = [T(loc[i]) == T(m[j] * std + mean) for i, j in enumerate(keep)]
            eqs_s = [T(sc[i]) == T(E(ls[j] + L(std))) for i, j in enumerate(keep)]
            res["weights are the renormalised weights of the kept components, each positive, summing to one"] = SymBool(z3.And(*eqs_w, *[T(x) > 0 for x in w], z3.Sum([T(x) for x in w]) == 1))
            res["locations are in the units of the data: loc_j * std + mean"] = SymBool(z3.And(*eqs_l))
            res["scales are in the units of the data (log-scale shifted by log std) and positive"] = SymBool(z3.And(*eqs_s, *[T(x) > 0 for x in sc]))
            if K >= 2:
                res["twin:a component is pruned"] = len(keep) < K
            res["twin:microsecond-level jitter (std < 1e-5)"] = SymBool(T(std) < Fraction(1, 10**5))
        else:
            cl = lambda a, b: abs(float(a) - float(b)) <= 2e-4 * max(abs(float(b)), 1e-30) + 1e-30
            res["weights are the renormalised weights of the kept components, each positive, summing to one"] = all(cl(w[i], wn[j] / ktot) for i, j in enumerate(keep)) and all(float(x) > 0 for x in w) and abs(sum(float(x) for x in w) - 1) <= 1e-5
            res["locations are in the units of the data: loc_j * std + mean"] = all(abs(float(loc[i]) - (m[j] * std + mean)) <= 1e-5 * max(1.0, abs(m[j] * std + mean)) for i, j in enumerate(keep))
            res["scales are in the units of the data (log-scale shifted by log std) and positive"] = all(cl(sc[i], E(ls[j] + L(std))) for i, j in enumerate(keep)) and all(float(x) > 0 for x in sc)
        return res

    return scenario


def scen_estimator_init(cfg):
    """GMMEstimator.__init__ on a data stand-in whose entries, mean and standard deviation are solver variables: the normalisation it fits on is the
    exact inverse of the map _rescale/get_dist use to go back to the units of the data (x_norm * std + mean == x), for every std above the
    determinism threshold -- otherwise fitted scales and offsets come back shrunk or stretched"""
    n = cfg["n"]

    def scenario(V):
        import numpy as onp
        from rex.gmm_estimator import GMMEstimator
        from vlib.pysym import SymBool, T

        if not V.symbolic:
            return _concrete_estimator_init()
        sd = V.anyreal("std", lo=0, hi=10)
        xs = [V.anyreal(f"x{i}", lo=0, hi=10) for i in range(n)]
        mu = sum(xs[1:], xs[0]) / n

        class _Data:
            """1-D delay data; its statistics are symbols (std is not derived from the entries: any positive value is allowed, which over-approximates)"""
            def __init__(self, cells):
                self.cells = onp.array(cells, dtype=object)

            def astype(self, dt):
                return self

            def mean(self, *a, **k):
                return mu

            def std(self, *a, **k):
                return sd

            def __sub__(self, o):
                return self.cells - o

        est = GMMEstimator(_Data(xs), name="verif", verbose=False)
        if est.is_deterministic:
            return {"data with std below the threshold is treated as deterministic": SymBool(T(sd) < Fraction(1, 10**7)), "twin:deterministic data": True}
        norm = list(onp.asarray(est._data_norm, dtype=object).reshape(-1))
        return {"the estimator fits on data normalised by exactly the mean and std it later rescales with: x_norm * std + mean == x": SymBool(z3.And(*[T(norm[i] * est._std + est._mean) == T(xs[i]) for i in range(n)])),
                "twin:jitter at the 10-microsecond level": SymBool(T(sd) < Fraction(1, 10**4))}

    return scenario


def _concrete_estimator_init():
    """replay on the real constructor with float data of several spreads (the solver's std symbol is not tied to the entries, so its numbers are not a dataset)"""
    import numpy as onp
    from rex.gmm_estimator import GMMEstimator

    name = "the estimator fits on data normalised by exactly the mean and std it later rescales with: x_norm * std + mean == x"
    ok = True
    for centre, spread in ((1e-3, 2e-5), (5e-3, 1e-4), (0.02, 1e-3), (2.0, 1.0)):
        data = (centre + spread * onp.array([-1.5, -1.0, -0.2, 0.0, 0.3, 1.0, 1.4])).astype(onp.float32)
        est = GMMEstimator(data, name="replay", verbose=False)
        if est.is_deterministic:
            continue
        back = onp.asarray(est._data_norm, onp.float64) * float(est._std) + float(est._mean)
        ok = ok and bool(onp.all(onp.abs(back - data.astype(onp.float64)) <= 1e-3 * float(onp.std(data))))
    return {name: ok}


def worker_estimator_init(cfg, tier):
    import rex.gmm_estimator as G
    from props.c03 import _to_obs
    from vlib import pysym

    res, stats = pysym.run_scenario(scen_estimator_init(cfg), [G], extra_patch={"rex.gmm_estimator": {"np": pysym.ObjNumpy()}}, timeout_ms=30000, patch_names=())
    keymap = {r["name"]: "estimator-init" for r in res}
    whatmap = {r["name"]: f"GMMEstimator.__init__: {r['name']} -- violated" for r in res}
    obs, stats = _to_obs(res, stats, cfg, "estimator-init", keymap, whatmap)
    if obs:
        obs[0].detail = {"stats": stats}
    return obs


def worker_estimator(cfg, tier):
    import rex.gmm_estimator as G
    from props.c03 import _to_obs
    from vlib import pysym

    res, stats = pysym.run_scenario(scen_estimator(cfg), [G], extra_patch={"rex.gmm_estimator": {"np": pysym.ObjNumpy(), "distrax": _StubDistrax, "base": _StubBase}},
                                    timeout_ms=30000 if tier == "quick" else 120000, patch_names=())
    keymap = {r["name"]: "estimator" for r in res}
    whatmap = {r["name"]: f"GMMEstimator.get_dist/_rescale: {r['name']} -- violated" for r in res}
    obs, stats = _to_obs(res, stats, cfg, "estimator", keymap, whatmap)
    if obs:
        obs[0].detail = {"stats": stats}
        obs[0].queries += stats["queries"]
    return obs


def configs(tier):
    return [dict(which="static_sample", n=1), dict(which="static_sample", n=3), dict(which="trainable", min=0.0, max=0.03125),
            dict(which="trainable", min=0.001, max=0.0235), dict(which="deterministic_quantile"), dict(which="normal_quantile")]


def run(rep):
    from rex import base
    from vlib.common import pmap

    rep.technique = ("jaxprs of StaticDist.sample/reset/quantile and TrainableDist.sample/mean/quantile interpreted over z3 terms; the wrapped distrax "
                     "distribution is an oracle (samples = uninterpreted function of the seed), PRNG split as uninterpreted function; z3 decides the clauses")
    rep.encode(base.StaticDist.sample, base.StaticDist.reset, base.StaticDist.quantile, base.TrainableDist.sample, base.TrainableDist.mean, base.TrainableDist.quantile, base.TrainableDist.get_alpha)
    cfgs = configs(rep.tier)
    rep.configs = cfgs
    rep.bounds = dict(sample_shapes=[1, 3])
    rep.assumptions = ["the underlying distribution returns arbitrary real samples as a function of its seed", "ndtri uninterpreted, axiom: strictly increasing",
                       "RESTRICTED: mixture quantiles (numpy grid search over a distrax CDF), agreement of the Normal quantile with the CDF and the fitting loop of the GMM estimator "
                       "(an optimisation) are not encodable and not claimed; default expected delay = quantile(0.99) >= 0 is checked with C16's node harness",
                       "GMM estimator: the constructor's normalisation (data entries, mean and std as symbols; std not tied to the entries) and the export path (_rescale, get_dist, normalize_weights) from arbitrary fitted parameters, data mean in [0,10], data std in [1e-7,10], "
                       "K <= 2 (3) components; exp/log uninterpreted with the axiom exp > 0"]
    rep.stubs = ["jax.scipy.special.ndtri -> oracle callback during tracing of the Normal quantile",
                 "estimator: jax.numpy -> object-array stand-in (exp/log uninterpreted, argsort/maximum by solver-checked comparisons), distrax/StaticDist.create -> recorders, adam_get_params -> the symbolic parameters"]
    obs = pmap("props.c15", "worker", cfgs, rep.tier)
    from rex import gmm_estimator
    rep.encode(gmm_estimator.GMMEstimator._rescale, gmm_estimator.GMMEstimator.get_dist, gmm_estimator.normalize_weights)
    ecfg = [dict(K=2, percentile=0.99), dict(K=2, percentile=0.8), dict(K=1, percentile=0.99), dict(K=1, deterministic=True, percentile=0.99)]
    if rep.tier == "thorough":
        ecfg += [dict(K=3, percentile=0.9), dict(K=3, percentile=0.99)]
    rep.configs = list(cfgs) + ecfg
    obs += pmap("props.c15", "worker_estimator", ecfg, rep.tier)
    rep.encode(gmm_estimator.GMMEstimator.__init__)
    obs += pmap("props.c15", "worker_estimator_init", [dict(n=2), dict(n=3)], rep.tier)
    rep.add_all(obs)


def replay(rp):
    return False
