"""C18 — search solvers keep the best candidate, respect bounds and ignore NaN losses (CEM part; evosax part outside).

Engine B, numeric model fp32 (IEEE Float32 terms, NaN/inf first class) for cem_update_mean_stdev; reals for gaussian_samples.
"""
import time

import numpy as np
import z3

from vlib.common import Ob

KEY_K3 = "K3:fewer-finite-loss-candidates-than-elites"


def _mk(num_samples, elite_portion, leaves):
    import jax.numpy as jnp
    from rex.cem import CEMSolver, CEMState

    shp = {"a": (), "b": (2,)}
    u = lambda v: {k: jnp.full(shp[k], v, jnp.float32) for k in leaves}
    solver = CEMSolver.init(u_min=u(-1.0), u_max=u(1.0), num_samples=num_samples, evolution_smoothing=jnp.float32(0.1),
                            elite_portion=elite_portion)
    state = CEMState(mean=u(0.0), stdev=u(1.0), bestsofar=u(0.0), bestsofar_loss=jnp.float32(np.inf))
    samples = {k: jnp.zeros((num_samples,) + shp[k], jnp.float32) for k in leaves}
    losses = jnp.zeros((num_samples,), jnp.float32)
    return solver, state, samples, losses


def py_clauses(old_best, old_loss, samples, losses, new_best, new_loss, n_el, elite_idx=None):
    """numpy evaluation of the property clauses on a concrete (old state, samples, losses, new state); returns violated clauses"""
    bad = []
    l2 = np.where(np.isnan(losses), np.inf, losses).astype(np.float32)
    mn = np.float32(min(np.float32(old_loss), l2.min()))
    if not (new_loss <= old_loss):
        bad.append("monotone")
    if not (new_loss == mn):
        bad.append("minimal")
    # attained: new best is the old best (if it still holds the minimum) or a sample whose (NaN->inf) loss equals new_loss
    ok = False
    keys = sorted(samples.keys())
    if old_loss == new_loss and all(np.array_equal(new_best[k], old_best[k], equal_nan=True) for k in keys):
        ok = True
    for i in range(len(losses)):
        if l2[i] == new_loss and all(np.array_equal(new_best[k], samples[k][i], equal_nan=True) for k in keys):
            ok = True
    if not ok:
        bad.append("attained")
    if np.isnan(new_loss):
        bad.append("nan-best-loss")
    return bad


def worker_update(cfg, tier):
    import jax
    import jax.numpy as jnp
    from rex.cem import cem_update_mean_stdev
    from vlib import jx, smt

    N, ep, leaves = cfg["N"], cfg["elite"], cfg["leaves"]
    n_el = int(N * ep)
    solver, state, samples, losses = _mk(N, ep, leaves)
    alg = jx.FPAlg()
    it = jx.Interp(alg=alg)
    fn = lambda st, sm, ls: cem_update_mean_stdev(solver, st, sm, ls)
    tr = jx.Traced(fn, state, samples, losses)
    flat = tr.sym_inputs(it, "c")
    st_in, sm_in, ls_in = tr.in_pytree(flat)
    out = tr.run(it, flat)
    L = ls_in.flat()
    old = st_in.bestsofar_loss.item()
    new = out.bestsofar_loss.item()
    isnan, inf = z3.fpIsNaN, z3.fpPlusInfinity(alg.F32)
    L2 = [z3.If(isnan(x), inf, x) for x in L]
    pre = [z3.Not(isnan(old))]  # state invariant (initially +inf; preserved: see obligation below)
    obs = []
    tmo = 120 if tier == "quick" else 600

    def flat_tree(t):
        return [x for k in sorted(t.keys()) for x in t[k].flat()]

    def sample_i(i):
        return [x for k in sorted(sm_in.keys()) for x in sm_in[k][i].flat()]

    new_best, old_best = flat_tree(out.bestsofar), flat_tree(st_in.bestsofar)
    same = lambda xs, ys: z3.And(*[x == y for x, y in zip(xs, ys)])  # bit identity (NaN == NaN)
    mn = old
    for x in L2:
        mn = z3.If(z3.fpLT(x, mn), x, mn)
    clauses = {
        "best-so-far loss never increases": z3.fpLEQ(new, old),
        "best-so-far loss == min(previous best, losses with NaN as +inf)": z3.fpEQ(new, mn),
        "best-so-far candidate is the previous best or a sample that attains the reported loss": z3.Or(
            z3.And(z3.fpEQ(old, new), same(new_best, old_best)),
            *[z3.And(z3.fpEQ(L2[i], new), same(new_best, sample_i(i))) for i in range(N)]),
        "best-so-far loss is never NaN (state invariant preserved)": z3.Not(isnan(new)),
        "a NaN-loss sample is never the new best while a finite-loss sample exists": z3.Implies(
            z3.Or(*[z3.Not(z3.Or(isnan(x), z3.fpIsInf(x))) for x in L]),
            z3.And(*[z3.Implies(isnan(L[i]), z3.Or(z3.Not(same(new_best, sample_i(i))),
                                                   z3.And(z3.fpEQ(old, new), same(new_best, old_best)),
                                                   *[z3.And(z3.Not(isnan(L[j])), z3.fpEQ(L[j], new), same(sample_i(j), sample_i(i))) for j in range(N) if j != i]))
                     for i in range(N)])),
    }
    for name, goal in clauses.items():
        v, m, s = smt.check(pre, goal, tmo)
        o = Ob(name, v, s, cfg, key=f"cem:{name[:40]}", what=f"CEM update violates: {name}")
        if v == "sat":
            o.replayed, o.model = _replay(cfg, m, tr, flat, name)
        obs.append(o)

    # elites: read the ranking off the real argsort inside the traced function
    tr_e = jx.Traced(lambda ls: jnp.argsort(jnp.where(jnp.isnan(ls), jnp.inf, ls))[:n_el], losses)
    el = tr_e.run(it, [ls_in]).flat()
    is_el = lambda i: z3.Or(*[alg.z(e, "i") == i for e in el])
    rank_goal = z3.And(*[z3.Implies(z3.And(isnan(L[i]), is_el(i), z3.Not(isnan(L[j])), z3.Not(z3.fpIsInf(L[j]))), is_el(j))
                         for i in range(N) for j in range(N) if i != j])
    v, m, s = smt.check([], rank_goal, tmo)
    obs.append(Ob("a NaN-loss sample is elite only if every finite-loss sample is elite too (NaN never displaces a finite candidate)", v, s, cfg,
                  key="cem:nan-displaces-finite", what="a NaN-loss candidate displaces a finite-loss candidate from the elite set"))
    lit_goal = z3.Implies(z3.Or(*[z3.Not(z3.Or(isnan(x), z3.fpIsInf(x))) for x in L]), z3.And(*[z3.Implies(isnan(L[i]), z3.Not(is_el(i))) for i in range(N)]))
    v, m, s = smt.check([], lit_goal, tmo)
    o = Ob("literal clause: no NaN-loss sample is elite while a finite-loss sample exists", v, s, cfg, key=KEY_K3,
           what="CEM keeps a fixed number of elites: when fewer than num_elites candidates have a finite loss, NaN-loss candidates are selected as elite although a finite-loss candidate exists")
    if v == "sat":
        lv = np.array([jx.model_value(m, x) for x in L], np.float32)
        l2 = np.where(np.isnan(lv), np.inf, lv)
        real_el = np.asarray(jnp.argsort(jnp.asarray(l2))[:n_el])
        n_non_nan = int(np.isfinite(lv).sum())  # finite-loss candidates (NaN is mapped to +inf and ties with genuine +inf losses)
        rep_ok = any(np.isnan(lv[i]) for i in real_el) and bool(np.isfinite(lv).any())
        o.replayed = bool(rep_ok)
        o.model = dict(losses=[float(x) for x in lv], elites=[int(i) for i in real_el], num_elites=n_el)
        if rep_ok and n_non_nan >= n_el:
            o.key = "cem:nan-elite-with-enough-finite"  # not the known situation
    obs.append(o)
    v, m, s = smt.satisfiable(pre + [isnan(L[0]), z3.fpLT(L[1], old)], 30)
    obs.append(Ob("twin.nan_and_improving_losses_reachable", v, s, cfg, kind="vacuity"))
    return obs


def worker_init(cfg, tier):
    """base case of the induction: the state CEMSolver.init_state hands to the first iteration has best-so-far loss +inf ("nothing evaluated yet":
    every finite loss beats it, an all-NaN/inf first generation leaves it +inf) and the given mean as place-holder candidate"""
    import jax.numpy as jnp
    import numpy as onp
    from vlib import jx, smt

    solver, state, samples, losses = _mk(cfg["N"], cfg["elite"], cfg["leaves"])
    obs = []
    for with_stdev in (False, True):
        alg = jx.FPAlg()
        it = jx.Interp(alg=alg)
        fn = (lambda mean, sd: solver.init_state(mean, sd)) if with_stdev else (lambda mean: solver.init_state(mean))
        args = (state.mean, state.stdev) if with_stdev else (state.mean,)
        tr = jx.Traced(fn, *args)
        flat = tr.sym_inputs(it, "i")
        ins = tr.in_pytree(flat)
        out = tr.run(it, flat)
        bl = alg.z(out.bestsofar_loss.item(), "f") if hasattr(alg, "z") else out.bestsofar_loss.item()
        same = z3.And(*[z3.Or(z3.fpEQ(a, b), z3.And(z3.fpIsNaN(a), z3.fpIsNaN(b))) for k in cfg["leaves"] for a, b in zip(out.bestsofar[k].flat(), ins[0][k].flat())]
                      + [z3.Or(z3.fpEQ(a, b), z3.And(z3.fpIsNaN(a), z3.fpIsNaN(b))) for k in cfg["leaves"] for a, b in zip(out.mean[k].flat(), ins[0][k].flat())])
        goal = z3.And(z3.fpIsInf(bl), z3.fpIsPositive(bl), same)
        v, m, s_ = smt.check([], goal, 60)
        o = Ob(f"init_state({'mean, stdev' if with_stdev else 'mean'}): best-so-far loss is +inf (no loss evaluated yet), mean and place-holder candidate are the given mean",
               v, s_, dict(cfg, with_stdev=with_stdev), key="cem-init", what="CEMSolver.init_state does not start from best-so-far loss +inf / the given mean")
        if v == "sat":
            st = solver.init_state(*args)
            o.replayed = not bool(onp.isposinf(onp.asarray(st.bestsofar_loss)))
        obs.append(o)
    return obs


def _replay(cfg, m, tr, flat, clause):
    import jax
    from vlib import jx

    try:
        leaves = []
        for sa, av in zip(flat, tr.in_avals()):
            arr = np.zeros(av.shape, dtype=av.dtype)
            for idx in np.ndindex(*av.shape):
                arr[idx] = jx.model_value(m, sa.v[idx])
            leaves.append(arr)
        st, sm, ls = jax.tree_util.tree_unflatten(tr.in_tree, leaves)
        bad = False
        for wrap in (lambda f: f, jax.jit):
            new = wrap(tr.fn)(st, sm, ls)
            viol = py_clauses({k: np.asarray(v) for k, v in st.bestsofar.items()}, np.float32(st.bestsofar_loss),
                              {k: np.asarray(v) for k, v in sm.items()}, np.asarray(ls),
                              {k: np.asarray(v) for k, v in new.bestsofar.items()}, np.float32(new.bestsofar_loss), None)
            if viol:
                bad = True
        return bad, dict(losses=[float(x) for x in np.asarray(ls)], old_loss=float(st.bestsofar_loss))
    except BaseException as e:  # noqa
        return None, dict(error=str(e))


def worker_samples(cfg, tier):
    """gaussian_samples: every candidate lies within [u_min, u_max] whenever u_min <= u_max (noise = oracle)"""
    import jax
    from rex.cem import gaussian_samples
    from vlib import cg, jx, smt

    solver, state, samples, losses = _mk(4, 0.5, cfg["leaves"])

    def normal_oracle(interp, eqn, args):
        return [interp.sym_like(f"noise{next(jx._fresh_counter)}", v.aval) for v in eqn.outvars]

    it = jx.Interp(name_handlers={"_normal": normal_oracle})
    tr = jx.Traced(lambda so, st, k: gaussian_samples(so, st, k), solver, state, jax.random.PRNGKey(0))
    flat = tr.sym_inputs(it, "s")
    so, st, k = tr.in_pytree(flat)

    def pre_of(so):
        return [lo <= hi for kk in so.u_min for lo, hi in zip(so.u_min[kk].flat(), so.u_max[kk].flat())]

    def goal(inp, out):
        so = inp[0]
        c = []
        for kk in out:
            for o_, lo, hi in zip(out[kk].flat(), so.u_min[kk].flat(), so.u_max[kk].flat()):
                c += [o_ >= lo, o_ <= hi]
        return z3.And(*c)

    # replay cannot inject noise; the real function is run with the model's mean/stdev/bounds and the real sampler
    o = cg.prove_with_replay("gaussian_samples within [u_min, u_max] for every mean/stdev/noise", cfg, it, tr, flat, pre_of(so), goal,
                             "cem:sample-bounds", "a CEM candidate lies outside the given bounds", grid=(-8, 8))
    v, m, s = smt.satisfiable(pre_of(so), 10)
    obs = [o, Ob("twin.bounds_satisfiable", v, s, cfg, kind="vacuity")]
    # mixed precision: search mean/stdev kept in float16, bounds in float32.  Reals cannot see rounding, so every narrowing float conversion in the jaxpr is
    # modelled as an uninterpreted function: the candidate is within the bounds only if nothing is rounded *after* the clip
    import jax.numpy as jnp
    st16 = state.replace(mean=jax.tree_util.tree_map(lambda x: x.astype(jnp.float16), state.mean), stdev=jax.tree_util.tree_map(lambda x: x.astype(jnp.float16), state.stdev))
    it2 = jx.Interp(name_handlers={"_normal": normal_oracle})
    it2.model_narrowing = True
    tr2 = jx.Traced(lambda so, st, k: gaussian_samples(so, st, k), solver, st16, jax.random.PRNGKey(0))
    flat2 = tr2.sym_inputs(it2, "h")
    so2, st2, k2 = tr2.in_pytree(flat2)
    out2 = tr2.run(it2, flat2)
    v, m, s = smt.check(pre_of(so2), goal((so2, st2, k2), out2), 60)
    o2 = Ob("gaussian_samples within [u_min, u_max] when mean/stdev are float16 and the bounds float32 (no rounding after the clip)", v, s, dict(cfg, mean_dtype="float16"), key="cem:sample-bounds-mixed",
            what="a CEM candidate is rounded to a narrower float format after it was clipped: it can leave [u_min, u_max] by one unit in the last place")
    if v == "sat":
        o2.replayed = _replay_mixed(cfg)
    obs.append(o2)
    return obs


def _replay_mixed(cfg):
    """real gaussian_samples with a float16 search distribution far above a float32 bound that float16 cannot represent: the clipped candidate must not exceed it"""
    import jax
    import jax.numpy as jnp
    import numpy as onp
    from rex.cem import CEMSolver, CEMState, gaussian_samples

    try:
        shp = {"a": (), "b": (2,)}
        u = lambda v, dt: {k: jnp.full(shp[k], v, dt) for k in cfg["leaves"]}
        solver = CEMSolver.init(u_min=u(-0.3, jnp.float32), u_max=u(0.3, jnp.float32), num_samples=4, evolution_smoothing=jnp.float32(0.1), elite_portion=0.5)
        for centre in (10.0, -10.0):
            st = CEMState(mean=u(centre, jnp.float16), stdev=u(0.0, jnp.float16), bestsofar=u(0.0, jnp.float16), bestsofar_loss=jnp.float32(onp.inf))
            smp = gaussian_samples(solver, st, jax.random.PRNGKey(0))
            for k in smp:
                x = onp.asarray(smp[k], onp.float64)
                if (x > onp.float64(onp.float32(0.3))).any() or (x < -onp.float64(onp.float32(0.3))).any():
                    return True
        return False
    except BaseException:  # noqa
        return None


def worker_cem_step(cfg, tier):
    """the glue of one CEM iteration (cem_step: sample, evaluate, update) with the loss as an oracle: the losses handed to the update are the ones the loss
    returned for exactly the candidates handed to the update, index-aligned -- so the best-so-far clauses hold relative to the candidates that were *evaluated*"""
    import jax
    import jax.numpy as jnp
    from rex import cem as C
    from vlib import cg, jx, smt
    from vlib.fixtures import oracle_callback

    N, ep, leaves = cfg["N"], cfg["elite"], cfg["leaves"]
    solver, state, _, _ = _mk(N, ep, leaves)

    def loss(x, transform, rng):
        return jax.pure_callback(oracle_callback("loss", ()), jax.ShapeDtypeStruct((), jnp.float32), x, vmap_method="sequential")

    def normal_oracle(interp, eqn, args):
        return [interp.sym_like(f"noise{next(jx._fresh_counter)}", v.aval) for v in eqn.outvars]

    alg = jx.FPAlg()
    plain = cg.Calls()
    it = jx.Interp(alg=alg, callback_handler=plain.handler, name_handlers={"_normal": normal_oracle})
    tr = jx.Traced(lambda st, k: C.cem_step(loss, solver, st, None, k), state, jax.random.PRNGKey(0))
    flat = tr.sym_inputs(it, "w")
    st_in, _k = tr.in_pytree(flat)
    new_state, losses = tr.run(it, flat)
    calls = plain.by_tag("oracle_loss")
    obs = []
    if len(calls) != N:
        return [Ob("cem_step evaluates the loss once per candidate", "sat", 0, cfg, key="cem-step-evals", what=f"cem_step evaluates {len(calls)} candidates, not num_samples={N}", replayed=True)]
    z = lambda x: alg.z(x, "f")

    def cand(i):  # the candidate the i-th loss evaluation saw (pytree leaves in key order)
        tree = calls[i]["args"][0]
        return [z(x) for k in sorted(tree.keys()) for x in tree[k].flat()] if isinstance(tree, dict) else [z(x) for a in calls[i]["args"] for x in a.flat()]

    L = [z(c["outs"][0].item()) for c in calls]
    isnan, inf = z3.fpIsNaN, z3.fpPlusInfinity(alg.F32)
    L2 = [z3.If(isnan(x), inf, x) for x in L]
    old, new = z(st_in.bestsofar_loss.item()), z(new_state.bestsofar_loss.item())
    flat_tree = lambda t: [z(x) for k in sorted(t.keys()) for x in t[k].flat()]
    new_best, old_best = flat_tree(new_state.bestsofar), flat_tree(st_in.bestsofar)
    same = lambda xs, ys: z3.And(len(xs) == len(ys), *[x == y for x, y in zip(xs, ys)])
    mn = old
    for x in L2:
        mn = z3.If(z3.fpLT(x, mn), x, mn)
    pre = [z3.Not(isnan(old))]
    ret = [z(x) for x in losses.flat()]
    clauses = {
        "cem_step: best-so-far loss == min(previous best, losses the loss function returned, NaN as +inf)": z3.fpEQ(new, mn),
        "cem_step: best-so-far candidate is the previous best or a candidate that was evaluated and attains the reported loss": z3.Or(
            z3.And(z3.fpEQ(old, new), same(new_best, old_best)), *[z3.And(z3.fpEQ(L2[i], new), same(new_best, cand(i))) for i in range(N)]),
        "cem_step: the returned per-candidate losses are the raw losses, in candidate order": z3.And(len(ret) == N, *[a == r for a, r in zip(ret, L)]),
    }
    tmo = 120 if tier == "quick" else 600
    # the candidates are only compared for identity: abstract each candidate coordinate (mean + stdev*noise, clipped) by a fresh Float32 constant, so the
    # solver does not bit-blast the sampling arithmetic (sound for 'unsat': the goal is then shown for arbitrary candidate values)
    pairs, seen_ids = [], set()
    for i in range(N):
        for j, t in enumerate(cand(i)):
            if t.get_id() not in seen_ids and not z3.is_const(t):
                seen_ids.add(t.get_id())
                pairs.append((t, z3.FP(f"cand_{i}_{j}", alg.F32)))
    for name, goal in clauses.items():
        v, m, s_ = smt.check(pre, z3.substitute(goal, *pairs) if pairs else goal, tmo)
        o = Ob(name, v, s_, cfg, key="cem-step:" + name[10:50], what=f"CEM iteration violates: {name}")
        if v == "sat":
            o.replayed = _replay_cem_step(cfg)
        obs.append(o)
    v, m, s_ = smt.satisfiable(pre + [z3.fpLT(L2[0], old), isnan(L[1])], 30)
    obs.append(Ob("twin.cem_step improving and NaN losses reachable", v, s_, cfg, kind="vacuity"))
    return obs


def _replay_cem_step(cfg):
    """concrete differential on the real cem_step: best-so-far after one iteration against the candidates the loss function actually saw"""
    import jax
    import jax.numpy as jnp
    import numpy as onp
    from rex import cem as C

    try:
        solver, state, _, _ = _mk(cfg["N"], cfg["elite"], cfg["leaves"])
        seen = []

        def loss(x, transform, rng):
            v = sum(jnp.sum(jnp.sin(3.0 * l + 0.3)) for l in jax.tree_util.tree_leaves(x))
            jax.debug.callback(lambda xx, vv: seen.append((jax.tree_util.tree_map(onp.asarray, xx), float(vv))), x, v)
            return v

        for seed in range(4):
            seen.clear()
            st = state.replace(bestsofar_loss=jnp.float32(onp.inf if seed % 2 == 0 else 0.5))
            new, losses = C.cem_step(loss, solver, st, None, jax.random.PRNGKey(seed))
            jax.effects_barrier()
            vals = [v for _, v in seen]
            want = min([float(st.bestsofar_loss)] + vals)
            if abs(float(new.bestsofar_loss) - want) > 1e-6:
                return True
            if float(new.bestsofar_loss) < float(st.bestsofar_loss):
                nb = onp.concatenate([onp.ravel(new.bestsofar[k]) for k in sorted(new.bestsofar)])
                if not any(abs(v - want) <= 1e-6 and onp.allclose(onp.concatenate([onp.ravel(x[k]) for k in sorted(x)]), nb) for x, v in seen):
                    return True
            if sorted(onp.asarray(losses).tolist()) != sorted(vals) and not onp.allclose(sorted(onp.asarray(losses).tolist()), sorted(vals), atol=1e-6):
                return True
        return False
    except BaseException:  # noqa
        return None


def worker_evo(cfg, tier):
    """rex.evo.evo_step around a stub strategy (evosax internals are outside the claim): the candidates evaluated are the ones the
    strategy asked for, and the fitness handed to strategy.tell is the loss with NaN replaced by +inf (never NaN)"""
    import jax
    import jax.numpy as jnp
    from rex import evo
    from vlib import cg, jx, smt
    from vlib.fixtures import oracle_callback

    P, Dm = cfg["popsize"], 2

    class StubStrategy:
        popsize = P

        def ask(self, rng, state, params):
            x = jax.pure_callback(oracle_callback("ask", (P, Dm)), jax.ShapeDtypeStruct((P, Dm), jnp.float32), rng, state)
            return x, state

        def tell(self, x, fitness, state, params):
            return jax.pure_callback(oracle_callback("tell", ()), jax.ShapeDtypeStruct((), jnp.float32), x, fitness, state)

    def loss(x, transform, rng):
        return jax.pure_callback(oracle_callback("loss", ()), jax.ShapeDtypeStruct((), jnp.float32), x, vmap_method="sequential")

    solver = evo.EvoSolver(strategy_params=jnp.float32(0.0), strategy=StubStrategy(), strategy_name="stub")
    alg = jx.FPAlg()
    calls = cg.UFCalls()
    # oracle results are free FP symbols here (FP sorts cannot be mixed into the Real/Int UF signature of UFCalls)
    plain = cg.Calls()
    it = jx.Interp(alg=alg, callback_handler=plain.handler)
    tr = jx.Traced(lambda st, k: evo.evo_step(loss, solver, st, None, k), jnp.float32(0.0), jax.random.PRNGKey(0))
    flat = tr.sym_inputs(it, "v")
    (new_state, _), losses = tr.run(it, flat)
    ask = plain.by_tag("oracle_ask")[0]
    tell = plain.by_tag("oracle_tell")[0]
    loss_calls = plain.by_tag("oracle_loss")
    x_asked = ask["outs"][0]
    obs = []
    # candidates evaluated / told are exactly the asked ones
    same_x = jx.sa_equal(alg, tell["args"][0], x_asked)
    ev = [c["args"][0].flat() for c in loss_calls]
    evaluated_ok = len(loss_calls) == P and all(all(a.eq(b) if jx.isz(a) else a == b for a, b in zip(ev[i], x_asked[i].flat())) for i in range(P))
    obs.append(Ob("evo_step: the candidates evaluated and reported to the strategy are exactly the ones it asked for", "unsat" if (same_x is True and evaluated_ok) else "sat", 0, cfg,
                  trivial=True, replayed=True, key="evo-candidates", what="evo_step evaluates or reports different candidates than the strategy asked for"))
    raw = [c["outs"][0].item() for c in loss_calls]
    fit = tell["args"][1].flat()
    isnan, inf = z3.fpIsNaN, z3.fpPlusInfinity(alg.F32)
    goal = z3.And(*[z3.And(z3.Not(isnan(alg.z(f, "f"))), z3.If(isnan(r), alg.z(f, "f") == inf, alg.z(f, "f") == r)) for f, r in zip(fit, raw)])
    v, m, s = smt.check([], goal, 60)
    o = Ob("evo_step: the fitness handed to strategy.tell is the loss with NaN replaced by +inf (never NaN)", v, s, cfg, key="evo-nan", what="evo_step hands NaN fitness values to the evolution strategy")
    if v == "sat":
        o.replayed = _replay_evo()
    obs.append(o)
    ret = [alg.z(x, "f") for x in losses.flat()]
    v, m, s = smt.check([], z3.And(*[a == r for a, r in zip(ret, raw)]), 60)
    obs.append(Ob("evo_step: the returned per-candidate losses are the raw losses", v, s, cfg, key="evo-losses", what="evo_step returns altered losses", replayed=None))
    return obs


def _replay_evo():
    import jax
    import jax.numpy as jnp
    from rex import evo

    try:
        seen = {}

        class S:
            popsize = 3

            def ask(self, rng, state, params):
                return jnp.arange(6, dtype=jnp.float32).reshape(3, 2), state

            def tell(self, x, fitness, state, params):
                seen["fit"] = np.asarray(fitness)
                return state

        solver = evo.EvoSolver(strategy_params=jnp.float32(0.0), strategy=S(), strategy_name="stub")
        evo.evo_step(lambda x, t, r: jnp.where(x[0] > 1.0, jnp.nan, x[0]), solver, jnp.float32(0.0), None, jax.random.PRNGKey(0))
        return bool(np.isnan(seen["fit"]).any())
    except BaseException:  # noqa
        return None


def configs(tier):
    if tier == "quick":
        return [dict(N=4, elite=0.5, leaves=["a"]), dict(N=4, elite=0.25, leaves=["a", "b"])]
    return [dict(N=4, elite=0.5, leaves=["a"]), dict(N=4, elite=0.25, leaves=["a", "b"]), dict(N=6, elite=0.5, leaves=["a"]),
            dict(N=6, elite=0.34, leaves=["a", "b"]), dict(N=5, elite=0.2, leaves=["b"])]


def run(rep):
    from rex import cem
    from vlib.common import pmap

    rep.technique = ("jaxpr of cem_update_mean_stdev interpreted over z3 Float32 terms (NaN/inf exact, sort via symbolic ranks with XLA's total order); "
                     "z3 decides the best-so-far clauses for all losses/samples/previous states; gaussian_samples over reals with oracle noise")
    rep.encode(cem.cem_update_mean_stdev, cem.gaussian_samples)
    cfgs = configs(rep.tier)
    rep.configs = cfgs
    rep.bounds = dict(num_samples=sorted({c["N"] for c in cfgs}), elite_portion=sorted({c["elite"] for c in cfgs}), param_leaves="scalar and 2-vector")
    rep.assumptions = ["previous best-so-far loss is not NaN (initial +inf: decided on the real init_state; preservation is itself an obligation)",
                       "one iteration from an arbitrary previous state: monotone/minimal/attained follow for cem() by induction over iterations",
                       "evolutionary strategies: candidate generation, elite selection and best-so-far tracking happen inside evosax and are outside the claim; only rex's own evo_step glue "
                       "(candidates evaluated = candidates asked, NaN -> +inf before tell) is decided, around a stub strategy",
                       "jax.random.normal is replaced by an oracle returning arbitrary reals (gaussian_samples obligation)"]
    rep.stubs = ["jax.random.normal -> fresh symbols (pjit name _normal)"]
    obs = pmap("props.c18", "worker_update", cfgs, rep.tier)
    rep.encode(cem.CEMSolver.init_state)
    obs += pmap("props.c18", "worker_init", cfgs[:2], rep.tier)
    rep.encode(cem.cem_step)
    obs += pmap("props.c18", "worker_cem_step", cfgs[:2] if rep.tier == "quick" else cfgs[:3], rep.tier)
    obs += pmap("props.c18", "worker_samples", [dict(leaves=["a", "b"])], rep.tier)
    from rex import evo
    rep.encode(evo.evo_step)
    obs += pmap("props.c18", "worker_evo", [dict(popsize=3)], rep.tier)
    rep.add_all(obs)


def replay(rp):
    return False
