"""C03 — recorded episodes are causal and loss-free on every connection.

Engine A: one-step inductive invariants of every connection handler of rex.asynchronous (real methods, symbolic times/delays/phases),
plus the node-side tick bookkeeping; engine B: InputState.push.
"""
import time
from fractions import Fraction

import z3

from vlib.common import Ob

KEY_K1 = "K1:recv-rounded-below-offgrid-sent-by-at-most-half-microsecond"


def _to_obs(res, stats, cfg, prefix, keymap=None, whatmap=None):
    out = []
    for r in res:
        kind = "vacuity" if r["twin"] else "obligation"
        name = f"{prefix}: {r['name'][5:] if r['twin'] else r['name']}"
        o = Ob(name, r["verdict"], r["secs"], cfg, kind=kind, detail=r.get("detail"), model=r.get("model"),
               queries=max(1, r["paths"]), replayed=r.get("replayed"))
        o.key = (keymap or {}).get(r["name"], f"{prefix}:{r['name']}")
        o.what = (whatmap or {}).get(r["name"], f"{prefix}: obligation '{r['name']}' fails on the real handler")
        out.append(o)
    return out, stats


def _all(xs):
    from vlib.pysym import zb
    xs = [zb(x) for x in xs]
    return z3.And(*xs) if xs else z3.BoolVal(True)


def _allv(V, xs):
    """conjunction usable in both modes"""
    from vlib.pysym import SymBool
    if V.symbolic:
        return SymBool(_all(xs))
    return all(bool(x) for x in xs)


def _close(V, a, b):
    if V.symbolic:
        return a == b
    return abs(float(a) - float(b)) < 1e-9


# ---------------------------------------------------------------------------------------------------
def scen_push_ts_input(cfg):
    from rex import base
    from vlib import asyncsym

    nq = cfg["nq"]

    def scenario(V):
        rec = asyncsym.Recorder()
        snd = asyncsym.mk_node(V, rec, "snd", 20)
        rcv = asyncsym.mk_node(V, rec, "rcv", 10)
        c = asyncsym.mk_conn(V, rec, snd, rcv, blocking=cfg["blocking"])
        if cfg.get("state") == "ready":  # the sender was started before the receiver: the connection is reset but not yet started
            from rex.constants import Async
            c._state = Async.READY
        # INV: queued receive times on the 1us grid, FIFO-monotone; _prev_recv_sc = last queued receive time
        ts = [V.grid(f"q{i}", lo=0) for i in range(nq)]
        for i in range(nq - 1):
            V.assume(ts[i] <= ts[i + 1])
        for i in range(nq):
            c.q_ts_input.append((5 + i, ts[i]))
        prev = ts[-1] if nq else V.grid("prev", lo=0)
        c._prev_recv_sc = prev
        sent = V.real("sent", lo=0)
        hdr = base.Header(eps=cfg["eps"], seq=5 + nq, ts=sent)
        n_before = (len(c.q_ts_input), len(c.q_zip_delay), len(c.delays))
        c.push_ts_input(sent, hdr)
        if cfg["eps"] != 0:  # header of another episode: dropped
            return {"stale-episode message changes nothing": (len(c.q_ts_input), len(c.q_zip_delay), len(c.delays)) == n_before and not rec.tasks}
        accepted = "an announced arrival of the current episode is accepted, also by a connection that is reset but not yet started (its sender was started first)"
        if (len(c.q_ts_input), len(c.q_zip_delay), len(c.delays)) == n_before:
            return {accepted: False}
        recv = c._prev_recv_sc
        d = c.delays[0]
        m = sent + d
        big = m if (m >= prev) else prev  # harness-side max (forks like the code does)
        return {
            accepted: True,
            "recv == round6(max(sent + delay, previous recv))": _allv(V, [recv * 1000000 <= big * 1000000 + 0.5 + (0 if V.symbolic else 1e-6), recv * 1000000 > big * 1000000 - 0.5 - (0 if V.symbolic else 1e-6)]),
            "FIFO: recv >= previous recv": recv >= prev,
            "causality (as stated): recv >= sent": recv >= sent,
            "causality up to the rounding grid: recv > sent - 0.5us": recv > sent - 0.5000001e-6,
            "queued (seq, recv) at the tail; INV preserved": _allv(V, [c.q_ts_input[-1][0] == 5 + nq, _close(V, c.q_ts_input[-1][1], recv), len(c.q_ts_input) == nq + 1]),
            "recorded delay == recv - sent": _close(V, c.q_zip_delay[-1], recv - sent),
            "twin:arrival after previous": recv > prev,
            "_recv": recv, "_sent": sent,
        }

    return scenario


def scen_push_zip(cfg):
    from rex import base
    from vlib import asyncsym

    def scenario(V):
        rec = asyncsym.Recorder()
        snd = asyncsym.mk_node(V, rec, "snd", 20)
        rcv = asyncsym.mk_node(V, rec, "rcv", 10)
        c = asyncsym.mk_conn(V, rec, snd, rcv, blocking=cfg["blocking"])
        if cfg.get("state") == "ready":  # the sender was started before the receiver: the connection is reset but not yet started
            from rex.constants import Async
            c._state = Async.READY
        # two announced arrivals (as push_ts_input leaves them): recv on grid, delay = recv - sent
        sent = [V.real(f"sent{i}", lo=0) for i in range(2)]
        recv = [V.grid(f"recv{i}", lo=0) for i in range(2)]
        V.assume(recv[0] <= recv[1])
        for i in range(2):
            c.q_zip_delay.append(recv[i] - sent[i])
        c.push_input(("msg", 7), base.Header(eps=0, seq=7, ts=sent[0]))
        accepted = ("a payload of the current episode is accepted, also by a connection that is reset but not yet started (its announced arrival was accepted "
                    "in that state too; dropping the payload would pair every later payload with an earlier message's receive time)")
        if len(c.q_msgs) == 0 and len(c.q_zip_msgs) == 0:
            return {accepted: False}
        ok_first = len(c.q_msgs) == 1 and len(c.q_zip_delay) == 1
        r0 = c.q_msgs[0][0]
        c.push_input(("msg", 8), base.Header(eps=0, seq=8, ts=sent[1]))
        r1 = c.q_msgs[1][0]
        return {
            accepted: True,
            "k-th message is paired with the k-th announced delay (FIFO)": _allv(V, [ok_first, len(c.q_msgs) == 2, len(c.q_zip_delay) == 0, c.q_msgs[0][1] == ("msg", 7), c.q_msgs[1][1] == ("msg", 8)]),
            "recorded ts_recv == the receive time announced for that message": _allv(V, [_close(V, r0.ts_recv, recv[0]), _close(V, r1.ts_recv, recv[1])]),
            "recorded seq_out / ts_sent are the sender's": _allv(V, [r0.seq_out == 7, r1.seq_out == 8, _close(V, r0.ts_sent, sent[0]), _close(V, r1.ts_sent, sent[1])]),
            "twin:distinct arrivals": recv[0] < recv[1],
        }

    return scenario


def scen_nonblocking(cfg):
    from rex.constants import Jitter
    from vlib import asyncsym

    n, skip, jitter = cfg["nq"], cfg["skip"], cfg["jitter"]
    rate_out = cfg.get("rate_out", 20)

    def scenario(V):
        rec = asyncsym.Recorder()
        snd = asyncsym.mk_node(V, rec, "snd", rate_out)
        rcv = asyncsym.mk_node(V, rec, "rcv", 10)
        phase = V.grid("phase", lo=0, hi=1)
        c = asyncsym.mk_conn(V, rec, snd, rcv, blocking=False, skip=skip, jitter=Jitter.BUFFER if jitter == "buffer" else Jitter.LATEST, phase=phase)
        ts = [V.grid(f"q{i}", lo=0) for i in range(n)]
        for i in range(n - 1):
            V.assume(ts[i] <= ts[i + 1])
        s0 = 4
        for i in range(n):
            c.q_ts_input.append((s0 + i, ts[i]))
        ts_step = V.real("ts_step", lo=0)
        c.q_ts_next_step.append((3, ts_step))
        later = V.grid("later", lo=0)  # any not-yet-announced message arrives FIFO-later
        if n:
            V.assume(later >= ts[-1])
        before = list(c.q_ts_input)
        c.push_selection = lambda: rec.tasks.append((c, "push_selection(sync)", ()))  # isolate this rule; selection has its own harness
        c.push_expected_nonblocking()
        fired = len(c.q_expected_select) == 1
        exists_future = _exists(V, [t > ts_step for t in ts])
        res = {"fires iff some queued arrival is strictly after the step start": (fired == exists_future) if not V.symbolic else _iff(fired, exists_future)}
        if not fired:
            res["not fired => nothing changes, nobody is poked"] = (list(c.q_ts_input) == before) and len(c.q_ts_next_step) == 1 and not rec.tasks and len(c.q_grouped) == 0
            res["twin:not fired reachable"] = True
            return res
        k = c.q_expected_select[0][1]
        if jitter == "buffer":
            # expected-time rule: longest prefix with seq/rate + phase <= ts_step and arrival <= ts_step; the property's clauses are cumulative:
            # a skipped connection is consumed strictly after its arrival under BUFFER as well
            arr = (lambda t: t < ts_step) if skip else (lambda t: t <= ts_step)
            conds = [_allv(V, [Fraction(s0 + i, rate_out) + phase <= ts_step, arr(ts[i])]) if V.symbolic else ((s0 + i) / rate_out + phase <= ts_step and arr(ts[i])) for i in range(n)]
            pre = [_allv(V, conds[:j + 1]) if V.symbolic else all(conds[:j + 1]) for j in range(n)]
            res["BUFFER: takes exactly the longest prefix whose expected and actual arrival are <= step start (arrival < step start if skip)"] = _allv(V, [pre[j] if j < k else _not(V, pre[j]) for j in range(n)][: k + 1])
        else:
            taken = [(t < ts_step) if skip else (t <= ts_step) for t in ts]
            res["LATEST: takes exactly the queued messages with arrival <= step start (< if skip)"] = _allv(V, [taken[j] if j < k else _not(V, taken[j]) for j in range(n)])
        res["popped messages are a FIFO prefix; the rest stays queued in order; selection is invoked"] = (list(c.q_ts_input) == before[k:]) and (c.q_expected_select[0][0] is ts_step) and rec.names() == ["push_selection(sync)"] and len(c.q_ts_next_step) == 0
        res["future lemma: a not-yet-announced message arrives strictly after this step start"] = later > ts_step
        res["twin:some taken some left"] = (k >= 1 and k < n) if n >= 2 else True
        res["_k"] = k
        return res

    return scenario


def _iff(pybool, sym):
    from vlib.pysym import SymBool, zb
    return SymBool(zb(sym) if pybool else z3.Not(zb(sym)))


def _exists(V, xs):
    from vlib.pysym import SymBool, zb
    if V.symbolic:
        return SymBool(z3.Or(*[zb(x) for x in xs])) if xs else SymBool(z3.BoolVal(False))
    return any(bool(x) for x in xs)


def _not(V, x):
    from vlib.pysym import SymBool, zb
    if V.symbolic:
        return SymBool(z3.Not(zb(x)))
    return not bool(x)


def scen_blocking(cfg):
    """push_expected_blocking: consecutive receiver ticks take adjacent, disjoint runs of sender ticks (no loss, no duplication)"""
    from vlib import asyncsym
    from vlib.pysym import sym_round

    rate_in, rate_out, skip, nticks = cfg["rate_in"], cfg["rate_out"], cfg["skip"], cfg["nticks"]

    def r6(V, x):
        return sym_round(x, 6) if V.symbolic else round(x, 6)

    def scenario(V):
        rec = asyncsym.Recorder()
        ph_out = V.grid("phase_out", lo=0, hi=Fraction(1, 2))
        ph_in = V.grid("phase_in", lo=0, hi=Fraction(1, 2))
        snd = asyncsym.mk_node(V, rec, "snd", rate_out, phase=ph_out)
        rcv = asyncsym.mk_node(V, rec, "rcv", rate_in, phase=ph_in)
        c = asyncsym.mk_conn(V, rec, snd, rcv, blocking=True, skip=skip)
        c.push_selection = lambda: None  # isolate this rule
        c.push_ts_max = lambda: None
        res = {}
        total = 0
        fr = (lambda a, b: Fraction(a, b)) if V.symbolic else (lambda a, b: a / b)
        for N in range(nticks):
            sched = r6(V, fr(N, rate_in) + ph_in)
            c.q_ts_next_step.append((N, sched))
            c.push_expected_blocking()
            k = c.q_expected_select[-1][1]
            total += k
            T = sched
            t_last = r6(V, fr(total - 1, rate_out) + ph_out) if total > 0 else None
            t_next = r6(V, fr(total, rate_out) + ph_out)
            if skip:
                conj = ([t_last < T] if t_last is not None else []) + [t_next >= T]
            else:
                conj = ([t_last <= T] if t_last is not None else []) + [t_next > T]
            res[f"ticks 0..{N} together take exactly the sender ticks i>=0 with t_i {'<' if skip else '<='} T_{N}"] = _allv(V, conj)
            res[f"tick {N}: same count announced to ts_max and to selection"] = c.q_expected_ts_max[-1] == k and len(c.q_expected_ts_max) == N + 1 and len(c.q_expected_select) == N + 1
        res["twin:some message taken"] = total >= 1
        res["_total"] = total
        return res

    return scenario


def scen_ts_max(cfg):
    from vlib import asyncsym

    n, k = cfg["nq"], cfg["k"]

    def scenario(V):
        rec = asyncsym.Recorder()
        snd = asyncsym.mk_node(V, rec, "snd", 20)
        rcv = asyncsym.mk_node(V, rec, "rcv", 10)
        c = asyncsym.mk_conn(V, rec, snd, rcv, blocking=True)
        ts = [V.grid(f"q{i}", lo=0) for i in range(n)]
        for i in range(n - 1):
            V.assume(ts[i] <= ts[i + 1])
        for i in range(n):
            c.q_ts_input.append((i, ts[i]))
        c.q_expected_ts_max.append(k)
        c.push_ts_max()
        if n < k:
            return {"waits until all announced arrivals are known": len(c.q_ts_input) == n and len(c.q_ts_max) == 0 and len(c.q_expected_ts_max) == 1 and not rec.tasks}
        tm = c.q_ts_max[0]
        return {
            "pops exactly the announced number of arrivals": len(c.q_ts_input) == n - k and len(c.q_expected_ts_max) == 0 and len(c.q_ts_max) == 1,
            "ts_max is the latest of their receive times (0 if none)": _allv(V, [tm >= t for t in ts[:k]] + [tm >= 0] + [_exists(V, [tm == t for t in ts[:k]] + [tm == 0])]),
            "pokes the receiver's phase-shift rule": rec.names() == ["push_phase_shift"],
        }

    return scenario


def scen_selection(cfg):
    from rex import base
    from vlib import asyncsym

    n, k, W = cfg["nq"], cfg["k"], cfg["window"]

    def scenario(V):
        rec = asyncsym.Recorder()
        snd = asyncsym.mk_node(V, rec, "snd", 20)
        rcv = asyncsym.mk_node(V, rec, "rcv", 10)
        c = asyncsym.mk_conn(V, rec, snd, rcv, blocking=cfg["blocking"], window=W)
        c._tick = 5
        rcv._max_records = cfg.get("max_records", 20000)  # truncation is by receiver *step* (get_record), never by message count
        pre = cfg.get("prerecorded", 0)
        c._record_messages = [base.MessageRecord(seq_out=10 - pre + i, seq_in=4, ts_sent=0.0, ts_recv=0.0, delay=0.0) for i in range(pre)]
        msgs = []
        for i in range(n):
            sent, recv = V.real(f"sent{i}", lo=0), V.grid(f"recv{i}", lo=0)
            r = base.MessageRecord(seq_out=10 + i, seq_in=None, ts_sent=sent, ts_recv=recv, delay=recv - sent)
            msgs.append(r)
            c.q_msgs.append((r, ("payload", 10 + i)))
        c.q_expected_select.append((V.real("ts_step", lo=0), k))
        c.push_selection()
        if n < k:
            return {"waits until all expected messages have been received": len(c.q_msgs) == n and c._tick == 5 and len(c.q_grouped) == 0 and not rec.tasks}
        g = c.q_grouped[0]
        recs = c._record_messages[pre:]
        return {
            "seq_in is the connection tick, advanced once per selection (also for empty groups)": c._tick == 6 and all(r.seq_in == 5 for r in recs),
            "messages leave the queue in FIFO order and every taken message is recorded": len(recs) == k and [r.seq_out for r in recs] == [10 + i for i in range(k)] and len(c.q_msgs) == n - k,
            "the step is handed the last `window` of them, oldest first": [e[0] for e in g] == [10 + i for i in range(k)][-W:] and all(e[3] == ("payload", e[0]) for e in g)
            and all((e[1] is msgs[e[0] - 10].ts_sent) and (e[2] is msgs[e[0] - 10].ts_recv) for e in g),
            "pokes the receiver's step rule": rec.names() == ["push_step"],
        }

    return scenario


def scen_node_ticks(cfg):
    from vlib import asyncsym
    from vlib.pysym import sym_round

    rate, nb = cfg["rate"], cfg["n_blocking"]

    def scenario(V):
        rec = asyncsym.Recorder()
        ph = V.grid("phase", lo=0, hi=1)
        node = asyncsym.mk_node(V, rec, "n", rate, phase=ph)
        srcs = [asyncsym.mk_node(V, rec, f"s{j}", 10) for j in range(2)]
        conns = [asyncsym.mk_conn(V, rec, srcs[j], node, blocking=(j < nb)) for j in range(2)]
        node.q_tick.extend([True] * 3)
        res = {}
        for t in range(3):
            node.push_scheduled_ts()
        ticks = [x[0] for x in node.q_ts_scheduled]
        fr = (lambda a, b: Fraction(a, b)) if V.symbolic else (lambda a, b: a / b)
        r6 = (lambda x: sym_round(x, 6)) if V.symbolic else (lambda x: round(x, 6))
        res["ticks are issued gap-free from 0, once each"] = ticks == [0, 1, 2] and node._tick == 3 and len(node.q_tick) == 0
        res["scheduled time of tick k is round6(k/rate + phase)"] = _allv(V, [_close(V, node.q_ts_scheduled[k][1], r6(fr(k, rate) + ph)) for k in range(3)])
        res["every blocking connection is told every tick exactly once, in order"] = all([x[0] for x in conns[j].q_ts_next_step] == ([0, 1, 2] if j < nb else []) for j in range(2))
        node.push_scheduled_ts()
        res["no token => no tick"] = node._tick == 3 and len(node.q_ts_scheduled) == 3
        return res

    return scenario


def scen_steps(cfg):
    """C03's step clauses on the real tick chain (driver shared with C04, obligations stated in C03's own terms): sequence numbers handed to
    and recorded for consecutive steps are gap-free, a step never starts before the previous one ended (whatever the scheduling mode, also
    when a step overruns its period), and what downstream connections are told is the step's end time under the step's sequence number."""
    from props import c04
    from vlib.pysym import SymBool, T

    def scenario(V):
        node, rec, obs, inp = c04.build(V, cfg)
        K = cfg["nticks"]
        rs = node._record_steps
        fired = all(o["fired"] for o in obs) and len(rs) == K
        res = {}
        res["steps are handed consecutive sequence numbers and recorded under consecutive ticks"] = fired and [int(x.seq) for x in node.node.step_calls] == list(range(K)) and [r.seq for r in rs] == list(range(K))
        if not fired:
            return res
        told = [[a for t_, n_, a in obs[k]["tasks"] if n_ == "push_ts_input" and t_ is inp["out_conn"]] for k in range(K)]
        res["each step announces exactly one output, numbered like the step"] = all(len(told[k]) == 1 and told[k][0][1].seq == k and rs[k].sent.seq == k for k in range(K))
        if V.symbolic:
            res["steps of one node never overlap in time: start_k >= end_{k-1} and end_k >= start_k"] = SymBool(z3.And(
                *[T(rs[k].ts_start) >= T(rs[k - 1].ts_end) for k in range(1, K)], *[T(rs[k].ts_end) >= T(rs[k].ts_start) for k in range(K)]))
            res["the announced send time is the end of the producing step"] = SymBool(z3.And(*[z3.And(T(told[k][0][0]) == T(rs[k].ts_end), T(told[k][0][1].ts) == T(rs[k].ts_end)) for k in range(K) if told[k]]))
            res["twin:overrun (delay longer than the period)"] = SymBool(T(node.delays[0]) > Fraction(1, cfg["rate"]))
        else:
            tol = 0.0  # rex takes start = max(..., end of previous step) and end = start + delay on the same floats: the comparisons are exact
            res["steps of one node never overlap in time: start_k >= end_{k-1} and end_k >= start_k"] = all(rs[k].ts_start >= rs[k - 1].ts_end - tol for k in range(1, K)) and all(rs[k].ts_end >= rs[k].ts_start - tol for k in range(K))
            res["the announced send time is the end of the producing step"] = all(abs(told[k][0][0] - rs[k].ts_end) <= tol and abs(told[k][0][1].ts - rs[k].ts_end) <= tol for k in range(K) if told[k])
        return res

    return scenario


SCENARIOS = {"steps": scen_steps, "push_ts_input": scen_push_ts_input, "push_zip": scen_push_zip, "nonblocking": scen_nonblocking, "blocking": scen_blocking,
             "ts_max": scen_ts_max, "selection": scen_selection, "node_ticks": scen_node_ticks}


def worker(cfg, tier):
    import rex.asynchronous as A
    from vlib import pysym

    extra = {"rex.asynchronous": {"onp": pysym.FakeNumpy(A.onp)}} if cfg["scen"] == "steps" else None
    res, stats = pysym.run_scenario(SCENARIOS[cfg["scen"]](cfg), [A], extra_patch=extra, timeout_ms=30000 if tier == "quick" else 120000)
    keymap = {"causality (as stated): recv >= sent": KEY_K1}
    whatmap = {"causality (as stated): recv >= sent": "simulated receive time is rounded to the 1 us grid but the send time is not: a message can be recorded as received up to 0.5 us before it was sent (recorded delay slightly negative)"}
    obs, stats = _to_obs(res, stats, cfg, cfg["scen"], keymap, whatmap)
    for o in obs:
        if o.key == KEY_K1 and o.verdict == "sat" and o.replayed:
            d = o.detail if isinstance(o.detail, dict) else {}
            gap = float(d.get("_sent", 0)) - float(d.get("_recv", 0))
            if not (0 < gap <= 0.5000001e-6):
                o.key = "causality-violation-beyond-rounding"
                o.what = f"a message is recorded as received {gap} s before it was sent"
    if obs:
        obs[0].detail = {"stats": stats, "first": obs[0].detail}
        obs[0].queries += stats["queries"]
    return obs


def worker_inputstate(cfg, tier):
    """engine B: InputState.push keeps the last W of old ++ new, oldest first, for seq/ts_sent/ts_recv/data alike"""
    import jax.numpy as jnp
    import numpy as np
    from rex.asynchronous import update_input_state
    from rex.base import InputState
    from vlib import cg, jx
    from vlib.fixtures import POutput

    W, g = cfg["W"], cfg["g"]
    it = jx.Interp()
    ins = InputState.from_outputs(np.zeros(W, np.int32), np.zeros(W, np.float32), np.zeros(W, np.float32), POutput(y=np.zeros((W, 2), np.float32)), delay_dist=None, is_data=True)

    def fn(i, seqs, sent, recv, data):
        for j in range(g):
            i = update_input_state(i, seqs[j], sent[j], recv[j], POutput(y=data[j]))
        return i

    tr = jx.Traced(fn, ins, np.zeros(g, np.int32), np.zeros(g, np.float32), np.zeros(g, np.float32), np.zeros((g, 2), np.float32))
    flat = tr.sym_inputs(it, "p")

    def goal(inp, out):
        i, seqs, sent, recv, data = inp
        conj = []
        for fld_old, fld_new, fld_out in ((i.seq, seqs, out.seq), (i.ts_sent, sent, out.ts_sent), (i.ts_recv, recv, out.ts_recv), (i.data.y, data, out.data.y)):
            cat = np.concatenate([fld_old.v, fld_new.v], axis=0)[-W:]
            e = jx.sa_equal(it.alg, fld_out, jx.SA(cat, fld_out.dtype))
            conj.append(z3.BoolVal(e) if isinstance(e, bool) else e)
        return z3.And(*conj)

    return [cg.prove_with_replay(f"InputState.push x{g} into window {W}: buffer == last W of old ++ new, oldest first", cfg, it, tr, flat, [], goal,
                                 "inputstate-push", "InputState.push does not keep the most recent messages oldest-first")]


def configs(tier):
    th = tier == "thorough"
    out = []
    for nq in ([0, 2] if not th else [0, 1, 2, 3]):
        for blocking in (False, True):
            out.append(dict(scen="push_ts_input", nq=nq, blocking=blocking, eps=0))
    out.append(dict(scen="push_ts_input", nq=1, blocking=False, eps=1))
    out += [dict(scen="push_ts_input", nq=0, blocking=b, eps=0, state="ready") for b in (False, True)]
    out += [dict(scen="push_zip", blocking=b) for b in (False, True)]
    out += [dict(scen="push_zip", blocking=b, state="ready") for b in (False, True)]
    for nq in ([1, 3] if not th else [1, 2, 3, 4]):
        for skip in (False, True):
            for jitter in ("latest", "buffer"):
                out.append(dict(scen="nonblocking", nq=nq, skip=skip, jitter=jitter))
    pairs = [(10, 10), (10, 20), (20, 10), (10, 13), (13, 10), (3, 10)] + ([(10, 30), (30, 10), (7, 13), (50, 10), (10, 50), (20, 13)] if th else [])
    for (ri, ro) in pairs:
        for skip in (False, True):
            out.append(dict(scen="blocking", rate_in=ri, rate_out=ro, skip=skip, nticks=3 if not th else 5))
    for nq, k in ([(3, 2), (1, 2), (2, 0)] if not th else [(3, 2), (1, 2), (2, 0), (4, 4), (4, 1), (0, 0)]):
        out.append(dict(scen="ts_max", nq=nq, k=k))
    # (nq, k, W): also groups smaller than the window (k < W < 2k, k < W/2) -- the step is then handed all k of them
    for nq, k, W in ([(3, 2, 1), (3, 3, 2), (1, 2, 1), (2, 0, 2), (3, 2, 3), (4, 3, 4), (3, 1, 3), (4, 3, 5)] if not th else
                     [(3, 2, 1), (3, 3, 2), (1, 2, 1), (2, 0, 2), (4, 4, 3), (4, 3, 1), (3, 2, 3), (4, 3, 4), (3, 1, 3), (4, 3, 5), (5, 4, 5), (5, 4, 7), (2, 2, 5)]):
        for b in (False, True):
            out.append(dict(scen="selection", nq=nq, k=k, window=W, blocking=b))
    out += [dict(scen="selection", nq=3, k=3, window=2, blocking=False, max_records=1), dict(scen="selection", nq=3, k=2, window=1, blocking=True, max_records=2, prerecorded=2)]
    for rate in ([10, 13] if not th else [3, 10, 13, 50]):
        for nb in (0, 1, 2):
            out.append(dict(scen="node_ticks", rate=rate, n_blocking=nb))
    for sched in ("frequency", "phase"):
        for advance in (False, True):
            for nb, nnb in ((0, 0), (1, 0), (1, 1), (0, 1)) + (((2, 0),) if th else ()):
                out.append(dict(scen="steps", rate=10 if not th else 13, scheduling=sched, advance=advance, n_blocking=nb, n_nonblocking=nnb,
                                nticks=3 if not th else 4, init_seq=0 if nb else 5))
    return out


def run(rep):
    import rex.asynchronous as A
    from rex import base
    from vlib import asyncsym
    from vlib.common import pmap

    rep.technique = ("proxy-based symbolic execution of the real handlers of rex.asynchronous (z3-backed numbers, grid normal form for 1 us-rounded times, "
                     "solver-checked branch feasibility, DFS over decision prefixes); each path's obligations discharged by z3; counterexamples "
                     "replayed on the unpatched handlers with python floats")
    W = A._AsyncConnectionWrapper
    rep.encode(W.push_ts_input, W.push_input, W.push_zip, W.push_expected_nonblocking, W.push_expected_blocking, W.push_ts_max, W.push_selection,
               A._AsyncNodeWrapper.push_scheduled_ts, A._AsyncNodeWrapper.push_phase_shift, A._AsyncNodeWrapper.push_step, A._AsyncNodeWrapper._reset,
               A._AsyncNodeWrapper._start, W.reset, W.start, base.InputState.push, A.update_input_state)
    miss_n, miss_c = asyncsym.attribute_selftest()
    miss_n = [m for m in miss_n if m != "_async_step"]
    if miss_n or miss_c:
        rep.harness_error(f"runtime wrappers carry state the harness does not populate: node {miss_n} connection {miss_c}")
    cfgs = configs(rep.tier)
    rep.configs = cfgs
    rep.bounds = dict(queue_lengths="<= 3 (4)", ticks="0..2 (0..4)", rate_pairs=sorted({(c["rate_in"], c["rate_out"]) for c in cfgs if c["scen"] == "blocking"}),
                      policies="blocking x skip x jitter enumerated")
    rep.assumptions = ["INV: queued receive times on the 1us grid, FIFO-monotone, aligned with q_msgs; ticks consecutive; _prev_recv_sc = last queued receive time",
                       "floats as reals; round(x,6) = round-half-up to the 1us grid; phases on the 1us grid (push_expected_blocking rounds them first) within [0, 0.5] s",
                       "simulated clock; delays >= 0 (contract of DelayDistribution.sample, C15)",
                       "BUFFER connections: the expected-time rule and the arrival rule are both required (for skipped connections: arrival strictly before the step start)"]
    rep.stubs = ["_submit -> recorder", "log -> no-op", "_jit_sample -> fresh non-negative delays", "_jit_update_input_state -> list model (InputState.push itself: engine B)", "throttle disabled (real_time_factor 0)"]
    obs = pmap("props.c03", "worker", cfgs, rep.tier)
    icfg = [dict(W=1, g=1), dict(W=2, g=1), dict(W=2, g=3), dict(W=3, g=2)] + ([dict(W=4, g=2), dict(W=1, g=3)] if rep.tier == "thorough" else [])
    obs += pmap("props.c03", "worker_inputstate", icfg, rep.tier)
    # every rule above is decided from a state satisfying INV; that the real reset()/_reset() re-establish it at the start of every episode (no announced delay,
    # message, expectation or counter of the previous episode left in any queue -- e.g. a stale q_zip_delay entry pairs new payloads with old receive times)
    # is the reset-residue obligation shared with C02
    rep.encode(A._AsyncNodeWrapper._reset, A._AsyncConnectionWrapper.reset)
    obs += pmap("props.c02", "worker_reset", [dict(blocking=False), dict(blocking=True)], rep.tier, serial=True)
    rep.paths = sum((o.get("detail") or {}).get("stats", {}).get("paths", 0) for o in obs if isinstance(o.get("detail"), dict))
    rep.add_all(obs)


def replay(rp):
    return False
