"""C12 — generated and augmented graphs are well-formed and match the node configuration.

Engine B on the real `episode` closure of rex.artificial._generate_graphs (captured at its jax.vmap call site), with every computation
and communication delay distribution replaced by an oracle (arbitrary real samples; the real StaticDist.sample clip stays in the path).
The inner while_loop is unrolled to the number of receiver vertices with an unwinding assertion.
"""
import time
from fractions import Fraction

import numpy as np
import z3

from vlib.common import Ob

KEY_K4 = "K4:out-of-order-arrival-assigned-after-its-first-eligible-step"


def capture_episode(cfg, augment=False, conn_dist=None, window=1):
    """build nodes with oracle delay distributions, run the real generate_graphs once and grab the vmapped `episode` closure"""
    import jax
    import jax.numpy as jnp
    import rex.artificial as art
    from rex.base import StaticDist
    from rex.node import BaseNode
    from props.c15 import OracleDist

    class VDist(OracleDist):
        def sample(self, sample_shape=(), seed=None):
            shp = tuple(sample_shape) if isinstance(sample_shape, (tuple, list)) else (sample_shape,)

            def cb(seed_, _name=f"oracle_sample_{self.tag}"):
                from vlib import fixtures
                q = fixtures.ORACLE_RETURNS.get(_name)
                if q:  # replay: hand out the solver model's samples in call order
                    return np.asarray(q.pop(0), np.float32).reshape(shp)
                return np.full(shp, 0.0625, np.float32)  # capture run: small plausible delays

            cb.__name__ = f"oracle_sample_{self.tag}"
            return jax.pure_callback(cb, jax.ShapeDtypeStruct(shp, jnp.float32), seed, vmap_method="sequential")

    ra, rb = cfg["rates"]
    a = BaseNode(name="a", rate=ra, delay=0.0, delay_dist=StaticDist(rng=jax.random.PRNGKey(0), dist=VDist("comp_a")))
    b = BaseNode(name="b", rate=rb, delay=0.0, delay_dist=StaticDist(rng=jax.random.PRNGKey(0), dist=VDist("comp_b")))
    b.connect(a, blocking=False, skip=cfg["skip"], window=window, delay=cfg["phase_b"],
              delay_dist=conn_dist if conn_dist is not None else StaticDist(rng=jax.random.PRNGKey(0), dist=VDist("comm_ab")))
    nodes = {"a": a, "b": b}
    captured = {}
    orig_vmap = jax.vmap

    def spy(fn, *args, **kw):
        if getattr(fn, "__name__", "") == "episode":
            captured["fn"] = fn
        return orig_vmap(fn, *args, **kw)

    jax.vmap = spy
    try:
        if augment:
            ex = cfg.get("existing", "a")
            g0 = art.generate_graphs({ex: BaseNode(name=ex, rate=ra if ex == "a" else rb, delay=0.0, delay_dist=StaticDist(rng=jax.random.PRNGKey(0), dist=VDist(f"comp_{ex}")))}, cfg["ts_max"], num_episodes=1)
            captured.pop("fn", None)
            art.augment_graphs(g0, nodes, rng=jax.random.PRNGKey(1))
            ex_graph = jax.tree_util.tree_map(lambda x: x[0], g0)
        else:
            art.generate_graphs(nodes, cfg["ts_max"], num_episodes=1)
            from rex.base import Graph
            ex_graph = Graph(vertices=dict(), edges=dict())
    finally:
        jax.vmap = orig_vmap
    fn = captured["fn"]
    # the closure reads `float(ts_max.max())` from the enclosing scope; under make_jaxpr every jnp op is staged, so the horizon
    # array is replaced by its numpy value (same numbers, stays concrete while tracing)
    i = fn.__code__.co_freevars.index("ts_max")
    fn.__closure__[i].cell_contents = np.asarray(fn.__closure__[i].cell_contents)
    return nodes, fn, ex_graph


def worker(cfg, tier):
    import jax
    import jax.numpy as jnp
    from vlib import cg, jx, smt

    augment = cfg.get("augment", False)
    nodes, episode, ex_graph = capture_episode(cfg, augment)
    ra, rb = cfg["rates"]
    skip = cfg["skip"]
    calls = cg.UFCalls()
    it = jx.Interp(callback_handler=calls.handler, while_bound=cfg.get("unroll", 8))
    alg = it.alg
    ts_max0 = jnp.float32(cfg["ts_max"])
    tr = jx.Traced(episode, jax.random.PRNGKey(0), ex_graph, ts_max0)
    flat = tr.sym_inputs(it, "e")
    rng_in, g_in, tsmax_in = tr.in_pytree(flat)
    # the horizon is kept concrete (it fixes the array shapes); everything else symbolic
    flat = list(flat)
    pre = []
    if not augment:
        # generate_graphs: every episode has the requested horizon (it also fixes the array shapes): concrete
        flat[-1] = it.from_concrete(np.asarray(ts_max0), np.float32)
        tsm = z3.RealVal(Fraction(float(np.float32(cfg["ts_max"]))))
    rng_in, g_in, tsmax_in = tr.in_pytree(flat)
    out = tr.run(it, flat)
    obs = []
    tmo = 120 if tier == "quick" else 600
    if augment:
        # augment_graphs: the array shapes come from the longest episode of the batch (closure value H_all, concrete); the horizon of *this*
        # episode is what rex derives from the given graph, h = max ts_end of its vertices, and is symbolic in [0, H_all].
        # The pre-existing part is an arbitrary well-formed vertex set for node a: executed prefix, then padding (seq -1, any times <= h).
        cell = episode.__closure__[episode.__code__.co_freevars.index("ts_max")].cell_contents
        H_all = Fraction(float(np.float32(np.max(cell))))
        tsm = tsmax_in.item()
        exn = cfg.get("existing", "a")
        va = g_in.vertices[exn]
        n = va.seq.shape[0]
        hmax = z3.RealVal(0)
        for i in range(n):
            pad = va.seq.v[i] == -1
            pre += [z3.Or(va.seq.v[i] == i, pad), va.ts_end.v[i] <= tsm,
                    z3.If(pad, z3.And(va.ts_start.v[i] >= -1, va.ts_end.v[i] >= -1), z3.And(va.ts_start.v[i] >= 0, va.ts_end.v[i] >= va.ts_start.v[i]))]
            if i + 1 < n:
                pre += [z3.Implies(va.seq.v[i + 1] != -1, va.ts_start.v[i + 1] >= va.ts_end.v[i]), z3.Implies(pad, va.seq.v[i + 1] == -1)]
            hmax = z3.If(va.ts_end.v[i] >= hmax, va.ts_end.v[i], hmax)
        pre += [tsm == hmax, tsm <= H_all]
    unwind = [u for u in it.unwind_obligations]
    v, m, s = smt.check(pre, z3.And(*unwind) if unwind else z3.BoolVal(True), tmo)
    obs.append(Ob("unwinding: the message->step search loop exits within the unrolling bound", v, s, cfg, kind="unwind"))

    def node_goal(name, rate, phase):
        vx = out.vertices[name]
        n = vx.seq.shape[0]
        per = Fraction(float(np.float32(1 / rate))) if False else None
        conj = [vx.ts_start.v[0] == Fraction(float(np.float32(phase)))]
        # 1/rate as the jaxpr sees it: python float -> float32 literal
        pr = Fraction(float(np.float32(1.0 / rate)))
        for i in range(n):
            conj.append(vx.ts_end.v[i] >= vx.ts_start.v[i])  # sampled computation delay >= 0
            conj.append(vx.seq.v[i] == z3.If(vx.ts_end.v[i] > tsm, -1, i))
            if i + 1 < n:
                nxt = z3.If(vx.ts_end.v[i] >= vx.ts_start.v[i] + pr, vx.ts_end.v[i], vx.ts_start.v[i] + pr)
                conj.append(vx.ts_start.v[i + 1] == nxt)
                conj.append(vx.ts_start.v[i + 1] >= vx.ts_end.v[i])  # no overlap
                conj.append(vx.ts_start.v[i + 1] - vx.ts_start.v[i] >= pr)  # spaced at least one period
        return z3.And(*conj)

    gen_nodes = [{"a": "b", "b": "a"}[cfg.get("existing", "a")]] if augment else ["a", "b"]
    for name in gen_nodes:
        rate = ra if name == "a" else rb
        v, m, s = smt.check(pre, node_goal(name, rate, nodes[name].phase), tmo)
        o = Ob(f"node {name}: starts at its phase, spaced >= one period, lasts one sampled delay >= 0, never overlaps, seq = -1 exactly beyond the horizon", v, s, cfg,
               key="gen-vertices", what="generated vertices violate the phase/period/delay/horizon law")
        if v == "sat":
            o.replayed = _replay_public(cfg) if not augment else _replay_augment(cfg, m, calls, episode, g_in, ex_graph, tsmax_in)
        obs.append(o)

    va, vb, e = out.vertices["a"], out.vertices["b"], out.edges[("a", "b")]
    na, nb = va.seq.shape[0], vb.seq.shape[0]
    BIG = jx.BIG
    # raw arrival = sender end + sampled communication delay (clipped at 0 by the real StaticDist.sample)
    comm = calls.by_tag("oracle_sample_comm_ab")[0]["outs"][0]
    cd = [z3.If(alg.z(x, "f") < 0, 0, alg.z(x, "f")) for x in comm.flat()]
    sent = [z3.If(va.seq.v[j] == -1, z3.RealVal(BIG), va.ts_end.v[j]) for j in range(na)]
    R = [sent[j] + cd[j] for j in range(na)]
    max_b = -1
    for k in range(nb):
        max_b = z3.If(vb.seq.v[k] >= max_b, vb.seq.v[k], max_b)

    def first_step(j, lo=0):
        """first receiver index k >= lo with ts_start_k >= R_j (> if skip); nb if none"""
        r = z3.IntVal(nb)
        for k in range(nb - 1, -1, -1):
            ok = (vb.ts_start.v[k] > R[j]) if skip else (vb.ts_start.v[k] >= R[j])
            r = z3.If(z3.And(ok, lo <= k) if not isinstance(lo, int) or lo > 0 else ok, k, r)
        return r

    def edge_goal(fifo_search):
        conj = []
        prev = 0
        for j in range(na):
            beyond = va.ts_end.v[j] > tsm if False else (sent[j] > tsm)
            conj.append(e.seq_out.v[j] == z3.If(beyond, -1, va.seq.v[j]))
            conj.append(e.ts_recv.v[j] == z3.If(va.seq.v[j] == -1, -1, R[j]))
            conj.append(z3.Implies(va.seq.v[j] != -1, e.ts_recv.v[j] >= va.ts_end.v[j]))  # received no earlier than the sender finished
            k = first_step(j, prev if fifo_search else 0)
            want = z3.If(z3.Or(k >= nb, beyond, k > max_b), -1, k)
            conj.append(e.seq_in.v[j] == want)
            if fifo_search:
                prev = z3.If(k >= nb, nb - 1, k)  # the code carries its search position to the next message
        return z3.And(*conj)

    fifo = z3.And(*[z3.Implies(va.seq.v[j + 1] != -1, R[j + 1] >= R[j]) for j in range(na - 1)])
    v, m, s = smt.check(pre + [fifo], edge_goal(False), tmo)
    o = Ob("edges (in-order arrivals): ts_recv = sender end + sampled delay >= 0; seq_in = first receiver step starting at/after arrival (strictly after if skip); -1 beyond the horizon", v, s, cfg,
           key="gen-edges", what="a generated message is not assigned to the first receiver step starting at or after its arrival")
    if v == "sat":
        o.replayed = _replay_model(cfg, m, calls, episode, ex_graph, False, True) if not augment else _replay_augment(cfg, m, calls, episode, g_in, ex_graph, tsmax_in, edges=(False, True))
    obs.append(o)
    v, m, s = smt.check(pre, edge_goal(True), tmo)
    o = Ob("edges (any arrivals): seq_in = first receiver step at/after arrival that is not before the step of the previous message (FIFO channel)", v, s, cfg,
           key="gen-edges-fifo", what="generated seq_in is not the FIFO-constrained first eligible receiver step")
    if v == "sat":
        o.replayed = _replay_model(cfg, m, calls, episode, ex_graph, True, False) if not augment else _replay_augment(cfg, m, calls, episode, g_in, ex_graph, tsmax_in, edges=(True, False))
    obs.append(o)
    v, m, s = smt.check(pre, edge_goal(False), tmo)
    o = Ob("literal clause (any arrivals): every message is assigned to the first receiver step starting at/after its own arrival", v, s, cfg, key=KEY_K4,
           what="generate_graphs searches the consuming step monotonically: a message that arrives before its predecessor (communication-delay reordering) is assigned to the predecessor's (later) step, not to the first step starting at/after its own arrival")
    if v == "sat":
        o.replayed = _replay_reorder(cfg)
    obs.append(o)
    if augment:
        eqs = jx.tree_equal(alg, out.vertices[exn], g_in.vertices[exn])
        obs.append(Ob("augment: pre-existing vertices are returned unchanged; exactly the missing node and connection are added",
                      "unsat" if (eqs is True and sorted(out.vertices.keys()) == ["a", "b"] and sorted(out.edges.keys()) == [("a", "b")]) else smt.check(pre, eqs if not isinstance(eqs, bool) else z3.BoolVal(eqs), 30)[0],
                      0, cfg, trivial=eqs is True, key="augment", what="augment_graphs alters an existing vertex/edge or adds the wrong keys", replayed=None))
    v, m, s = smt.satisfiable(pre + [va.seq.v[na - 1] == -1, va.seq.v[0] == 0, e.seq_in.v[0] >= 0], 60)
    obs.append(Ob("twin.horizon cut and consumed message reachable", v, s, cfg, kind="vacuity"))
    if augment:
        v, m, s = smt.satisfiable(pre + [tsm < H_all, z3.Or(*[z3.And(vb.seq.v[k] == -1, vb.ts_end.v[k] <= H_all) for k in range(nb)]), vb.seq.v[0] == 0], 60)
        obs.append(Ob("twin.episode shorter than the batch's longest: a generated vertex is masked by this episode's horizon only", v, s, cfg, kind="vacuity"))
    return obs


def _replay_model(cfg, m, calls, episode, ex_graph, fifo_search, in_order_only):
    """run the real `episode` closure eagerly with every oracle returning the model's samples; re-evaluate the edge law in numpy"""
    import jax
    import jax.numpy as jnp
    from vlib import fixtures, jx

    try:
        fixtures.ORACLE_RETURNS.clear()
        for c in calls.calls:
            fixtures.ORACLE_RETURNS.setdefault(c["tag"], []).append(jx.model_array(m, c["outs"][0], np.float32))
        g = episode(jax.random.PRNGKey(0), ex_graph, jnp.float32(cfg["ts_max"]))
        fixtures.ORACLE_RETURNS.clear()
        va = jax.tree_util.tree_map(lambda x: np.asarray(x, np.float64), g.vertices["a"])
        vb = jax.tree_util.tree_map(lambda x: np.asarray(x, np.float64), g.vertices["b"])
        e = jax.tree_util.tree_map(lambda x: np.asarray(x, np.float64), g.edges[("a", "b")])
        skip, nb = cfg["skip"], len(vb.seq)
        R = [e.ts_recv[j] if va.seq[j] != -1 else np.inf for j in range(len(va.seq))]
        if in_order_only and any(R[j + 1] < R[j] for j in range(len(R) - 1) if va.seq[j + 1] != -1):
            return False
        prev, bad = 0, False
        for j in range(len(va.seq)):
            ks = [k for k in range(nb) if (vb.ts_start[k] > R[j] if skip else vb.ts_start[k] >= R[j]) and k >= (prev if fifo_search else 0)]
            k = ks[0] if ks else nb
            beyond = (va.ts_end[j] if va.seq[j] != -1 else np.inf) > cfg["ts_max"]
            want = -1 if (k >= nb or beyond or k > vb.seq.max()) else k
            if int(e.seq_in[j]) != want:
                bad = True
            if fifo_search:
                prev = nb - 1 if k >= nb else k
        return bad
    except BaseException:  # noqa
        fixtures.ORACLE_RETURNS.clear()
        return None


def _replay_augment(cfg, m, calls, episode, g_in, ex_graph, tsmax_in, edges=None):
    """augment: run the real `episode` closure of the real augment_graphs call eagerly on the model's pre-existing vertices and this episode's
    horizon, every oracle returning the model's samples; re-evaluate the vertex law (edges=None) or the edge law in numpy"""
    import jax
    import jax.numpy as jnp
    from vlib import fixtures, jx

    try:
        fixtures.ORACLE_RETURNS.clear()
        for c in calls.calls:
            fixtures.ORACLE_RETURNS.setdefault(c["tag"], []).append(jx.model_array(m, c["outs"][0], np.float32))
        leaves_sym = jax.tree_util.tree_leaves(g_in, is_leaf=lambda x: isinstance(x, jx.SA))
        leaves_c, treedef = jax.tree_util.tree_flatten(ex_graph)
        g0 = jax.tree_util.tree_unflatten(treedef, [jnp.asarray(jx.model_array(m, sa, np.asarray(c).dtype)) for sa, c in zip(leaves_sym, leaves_c)])
        h = np.float32(float(jx.model_value(m, tsmax_in.item())))
        g = episode(jax.random.PRNGKey(0), g0, jnp.float32(h))
        fixtures.ORACLE_RETURNS.clear()
        f64 = lambda t: jax.tree_util.tree_map(lambda x: np.asarray(x, np.float64), t)
        va, vb, e = f64(g.vertices["a"]), f64(g.vertices["b"]), f64(g.edges[("a", "b")])
        if edges is None:
            gen_b = cfg.get("existing", "a") == "a"
            vg, rg = (vb, cfg["rates"][1]) if gen_b else (va, cfg["rates"][0])
            for i in range(len(vg.seq)):
                if vg.ts_end[i] < vg.ts_start[i] or (vg.seq[i] == -1) != (vg.ts_end[i] > h):
                    return True
                if i + 1 < len(vg.seq) and abs(vg.ts_start[i + 1] - max(vg.ts_end[i], vg.ts_start[i] + float(np.float32(1.0 / rg)))) > 1e-5:
                    return True
            return False
        fifo_search, in_order_only = edges
        skip, nb = cfg["skip"], len(vb.seq)
        R = [e.ts_recv[j] if va.seq[j] != -1 else np.inf for j in range(len(va.seq))]
        if in_order_only and any(R[j + 1] < R[j] for j in range(len(R) - 1) if va.seq[j + 1] != -1):
            return False
        prev, bad = 0, False
        for j in range(len(va.seq)):
            ks = [k for k in range(nb) if (vb.ts_start[k] > R[j] if skip else vb.ts_start[k] >= R[j]) and k >= (prev if fifo_search else 0)]
            k = ks[0] if ks else nb
            beyond = (va.ts_end[j] if va.seq[j] != -1 else np.inf) > h
            want = -1 if (k >= nb or beyond or k > vb.seq.max()) else k
            if int(e.seq_in[j]) != want:
                bad = True
            if fifo_search:
                prev = nb - 1 if k >= nb else k
        return bad
    except BaseException:  # noqa
        fixtures.ORACLE_RETURNS.clear()
        return None


def _replay_public(cfg):
    """numeric check of the same laws on real generate_graphs with Normal delays (public API)"""
    import distrax
    import jax
    from rex.artificial import generate_graphs
    from rex.node import BaseNode

    try:
        ra, rb = cfg["rates"]
        for seed in range(4):
            a = BaseNode(name="a", rate=ra, delay_dist=distrax.Normal(0.3 / ra, 0.4 / ra))
            b = BaseNode(name="b", rate=rb, delay_dist=distrax.Normal(0.3 / rb, 0.4 / rb))
            b.connect(a, skip=cfg["skip"], delay_dist=distrax.Normal(0.02, 0.0))
            g = generate_graphs({"a": a, "b": b}, cfg["ts_max"], rng=jax.random.PRNGKey(seed))
            for n, rate in (("a", ra), ("b", rb)):
                v = jax.tree_util.tree_map(lambda x: np.asarray(x[0], np.float64), g.vertices[n])
                if abs(v.ts_start[0] - float(n == "b") * (a.delay + 0.02) * 0) > 1e9:
                    return True
                for i in range(len(v.seq)):
                    if v.ts_end[i] < v.ts_start[i] - 1e-6 or (v.seq[i] == -1) != (v.ts_end[i] > cfg["ts_max"] + 1e-7):
                        return True
                    if i + 1 < len(v.seq) and (abs(v.ts_start[i + 1] - max(v.ts_end[i], v.ts_start[i] + 1 / rate)) > 1e-5):
                        return True
            va = jax.tree_util.tree_map(lambda x: np.asarray(x[0], np.float64), g.vertices["a"])
            vb = jax.tree_util.tree_map(lambda x: np.asarray(x[0], np.float64), g.vertices["b"])
            e = jax.tree_util.tree_map(lambda x: np.asarray(x[0], np.float64), g.edges[("a", "b")])
            for j in range(len(va.seq)):
                if va.seq[j] == -1:
                    continue
                r = e.ts_recv[j]
                ks = [k for k in range(len(vb.seq)) if (vb.ts_start[k] > r if cfg["skip"] else vb.ts_start[k] >= r)]
                want = -1 if (not ks or ks[0] > vb.seq.max()) else ks[0]
                if int(e.seq_in[j]) != want or r < va.ts_end[j] - 1e-6:
                    return True
        return False
    except BaseException:  # noqa
        return None


def _replay_reorder(cfg):
    """public API: jittery communication delays reorder arrivals; is some message assigned after its first eligible step?"""
    import distrax
    import jax
    from rex.artificial import generate_graphs
    from rex.node import BaseNode

    try:
        for seed in range(20):
            a = BaseNode(name="a", rate=50, delay_dist=distrax.Deterministic(0.001))
            b = BaseNode(name="b", rate=100, delay_dist=distrax.Deterministic(0.001))
            b.connect(a, skip=cfg["skip"], delay=0.05, delay_dist=distrax.Normal(0.05, 0.03))
            g = generate_graphs({"a": a, "b": b}, 1.0, rng=jax.random.PRNGKey(seed))
            va = jax.tree_util.tree_map(lambda x: np.asarray(x[0], np.float64), g.vertices["a"])
            vb = jax.tree_util.tree_map(lambda x: np.asarray(x[0], np.float64), g.vertices["b"])
            e = jax.tree_util.tree_map(lambda x: np.asarray(x[0], np.float64), g.edges[("a", "b")])
            for j in range(len(va.seq)):
                if e.seq_out[j] == -1 or e.seq_in[j] == -1:
                    continue
                r = e.ts_recv[j]
                ks = [k for k in range(len(vb.seq)) if (vb.ts_start[k] > r if cfg["skip"] else vb.ts_start[k] >= r)]
                if ks and int(e.seq_in[j]) > ks[0]:
                    return True
        return False
    except BaseException:  # noqa
        return None


def configs(tier):
    out = []
    for rates in ([(2, 3), (3, 2)] if tier == "quick" else [(2, 3), (3, 2), (2, 2), (4, 3)]):
        for skip in (False, True):
            out.append(dict(rates=rates, skip=skip, ts_max=1.0, phase_b=0.125, unroll=6))
    out.append(dict(rates=(2, 3), skip=False, ts_max=1.0, phase_b=0.125, unroll=6, augment=True))
    # the generated node *sends to* a pre-existing receiver (arbitrary well-formed vertex set, possibly padded)
    out.append(dict(rates=(3, 2), skip=False, ts_max=1.0, phase_b=0.125, unroll=6, augment=True, existing="b"))
    if tier == "thorough":
        out.append(dict(rates=(3, 2), skip=True, ts_max=1.0, phase_b=0.125, unroll=6, augment=True, existing="b"))
        out.append(dict(rates=(3, 2), skip=True, ts_max=1.0, phase_b=0.125, unroll=6, augment=True))
    return out


def run(rep):
    import rex.artificial as art
    from rex import base
    from vlib.common import pmap

    rep.technique = ("jaxpr of the real `episode` closure of _generate_graphs (captured at its jax.vmap call site) interpreted over z3 terms with every delay "
                     "distribution an oracle (samples = uninterpreted function of the PRNG key; real clip-at-zero in the path); scans unrolled, the while loop unrolled with "
                     "an unwinding assertion; z3 decides the vertex and edge laws; counterexamples re-checked on the public generate_graphs")
    rep.encode(art._generate_graphs, art.generate_graphs, art.augment_graphs, base.StaticDist.sample)
    cfgs = configs(rep.tier)
    rep.configs = cfgs
    rep.bounds = dict(nodes=2, vertices_per_node="<= 5", rates=sorted({c["rates"] for c in cfgs}), horizon_s=1.0, while_unroll=6)
    rep.assumptions = ["computation/communication delays are arbitrary reals (oracle); StaticDist.sample clips them at 0", "floats as reals; +inf for unsent messages modelled as 1e12",
                       "horizon concrete (it fixes the array shapes)", "acyclicity follows from 'every edge goes forward in time' together with the stateful edges (not separately encoded)",
                       "trainable connections use their minimal delay (Deterministic(min)): a concrete distribution, not part of the symbolic quantification"]
    rep.stubs = ["distrax distributions of nodes/connections -> oracle callbacks", "jax.vmap spied to capture the episode closure"]
    rep.add_all(pmap("props.c12", "worker", cfgs, rep.tier))


def replay(rp):
    return False
