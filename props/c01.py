"""C01 — compiled replay reproduces the recorded asynchronous execution step for step (lemma chain + one two-sided differential).

D (engines A+B): for one connection x->y the real asynchronous handlers are driven to quiescence on symbolic timings (engine A); the
   records they produce are converted by the real EpisodeRecord.to_graph and the real utils.apply_window is interpreted (engine B) on
   them; for every executed receiver step the window the step was handed asynchronously must equal the compiled window
   (seq where >= 0, ts_sent, ts_recv, oldest first; negative on one side <=> negative on the other).
The other lemmas are C08 (payloads), C09/C13 (step state threading in the compiled runner), C14 (conversions) -- see DESIGN.md.
"""
import time
from fractions import Fraction

import numpy as np
import z3

from vlib.common import Ob


def drive(V, cfg, order="sender-first", tag=""):
    """real handlers of a sender and a receiver node wrapper connected by one connection, played by single-worker executors in a
    canonical order until quiescence within the tick bounds."""
    from rex.constants import Jitter, Scheduling
    from vlib import asyncsym

    M, K = cfg["M"], cfg["K"]
    rec = asyncsym.Recorder()
    ph_s = V.grid("phase_snd", lo=0, hi=Fraction(1, 4))
    ph_r = V.grid("phase_rcv", lo=0, hi=Fraction(1, 2))
    sched = lambda k: Scheduling.PHASE if cfg.get(k) == "phase" else Scheduling.FREQUENCY
    snd = asyncsym.mk_node(V, rec, "snd", cfg["rate_out"], phase=ph_s, scheduling=sched("sched_snd"))
    rcv = asyncsym.mk_node(V, rec, "rcv", cfg["rate_in"], phase=ph_r, advance=cfg.get("advance", False), scheduling=sched("sched_rcv"))
    c = asyncsym.mk_conn(V, rec, snd, rcv, blocking=cfg["blocking"], skip=cfg["skip"], jitter=Jitter.BUFFER if cfg["jitter"] == "buffer" else Jitter.LATEST,
                         window=cfg["W"], phase=V.grid("cphase", lo=0, hi=Fraction(1, 2)) if cfg["jitter"] == "buffer" else 0)
    for w, bound in ((snd, M), (rcv, K)):
        orig = w.push_scheduled_ts.__func__

        def bounded(_w=w, _b=bound, _orig=orig):
            if _w._tick < _b:
                _orig(_w)

        bounded.__name__ = "push_scheduled_ts"
        w.push_scheduled_ts = bounded
    # initial state, tick tokens and the first scheduling task of both nodes come from the real _reset/_start
    asyncsym.real_reset_start(V, [snd, rcv], keep_tokens=True)
    orders = {"sender-first": [snd, c, rcv], "receiver-first": [rcv, c, snd], "connection-first": [c, rcv, snd], "fifo": None}
    rec.drain(orders[order], max_tasks=60 * (M + K))
    return snd, rcv, c


def observe(snd, rcv, c):
    steps = [dict(seq=int(s.seq), ts=s.ts, window=list(s.inputs["snd"].entries)) for s in rcv.node.step_calls]
    msgs = [(m.seq_out, m.seq_in, m.ts_sent, m.ts_recv) for m in c._record_messages]
    s_steps = [(r.seq, r.ts_start, r.ts_end) for r in snd._record_steps]
    r_steps = [(r.seq, r.ts_start, r.ts_end) for r in rcv._record_steps]
    return dict(steps=steps, msgs=msgs, s_steps=s_steps, r_steps=r_steps)


_AW_CACHE = {}


def compiled_windows(cfg, obs):
    """real EpisodeRecord.to_graph + real apply_window (jaxpr interpreted over z3 terms) on the async records"""
    import jax
    from rex import base, utils
    from vlib import jx
    from vlib.pysym import T
    from props.c07 import _build

    W = cfg["W"]
    n_s, n_r = len(obs["s_steps"]), len(obs["r_steps"])
    last = n_r - 1
    msgs = [m for m in obs["msgs"] if m[1] <= last]  # get_record's filter (C13)
    E = len(msgs)
    if n_s == 0 or n_r == 0 or E == 0:
        return None
    it = jx.Interp()
    f = lambda xs, k: jx.SA(np.array([x if isinstance(x, int) else T(x) for x in xs], dtype=object), np.int32 if k == "i" else np.float32)
    steps_s = base.StepRecord(eps=None, seq=f([s[0] for s in obs["s_steps"]], "i"), ts_start=f([s[1] for s in obs["s_steps"]], "f"), ts_end=f([s[2] for s in obs["s_steps"]], "f"),
                              delay=None, rng=None, inputs=None, state=None, output=None)
    steps_r = base.StepRecord(eps=None, seq=f([s[0] for s in obs["r_steps"]], "i"), ts_start=f([s[1] for s in obs["r_steps"]], "f"), ts_end=f([s[2] for s in obs["r_steps"]], "f"),
                              delay=None, rng=None, inputs=None, state=None, output=None)
    mrec = base.MessageRecord(seq_out=f([m[0] for m in msgs], "i"), seq_in=f([m[1] for m in msgs], "i"), ts_sent=f([m[2] for m in msgs], "f"),
                              ts_recv=f([m[3] for m in msgs], "f"), delay=None)
    rec = base.EpisodeRecord(nodes={
        "snd": base.NodeRecord(info=None, clock=None, real_time_factor=None, ts_start=None, params=None, inputs={}, steps=steps_s),
        "rcv": base.NodeRecord(info=None, clock=None, real_time_factor=None, ts_start=None, params=None, inputs={"snd": base.InputRecord(info=None, messages=mrec)}, steps=steps_r)})
    graph_sa = rec.to_graph()  # the real conversion (pure repackaging: the SA cells flow through)
    pad = cfg.get("pad", 0)
    if pad:  # the episode as it looks inside a ragged stack (base.Graph.stack pads every leaf with -1 up to the longest episode)
        graph_sa = jax.tree_util.tree_map(lambda sa: jx.SA(np.concatenate([sa.v, np.array([-1] * pad, dtype=object)]), sa.dtype), graph_sa, is_leaf=lambda x: isinstance(x, jx.SA))
    key = (W, n_s + pad, n_r + pad, E + pad)
    if key not in _AW_CACHE:
        nodes, graph0, Wtot = _build(W, n_s + pad, n_r + pad, E + pad, False)
        _AW_CACHE[key] = (jx.Traced(lambda gr: utils.apply_window(nodes, gr), graph0), graph0)
    tr, graph0 = _AW_CACHE[key]
    # flatten the SA graph in the order of the traced example's leaves
    leaves_ex, td = jax.tree_util.tree_flatten(graph0)
    leaves_sa = jax.tree_util.tree_leaves(graph_sa, is_leaf=lambda x: isinstance(x, jx.SA))
    assert len(leaves_ex) == len(leaves_sa)
    out = tr.run(it, leaves_sa)
    win = out.vertices["rcv"].windows["snd"]
    return [[(win.seq.v[k, j], win.ts_sent.v[k, j], win.ts_recv.v[k, j]) for j in range(W)] for k in range(n_r)]


def scen_diff(cfg):
    from vlib.pysym import SymBool, T, Sym

    def scenario(V):
        snd, rcv, c = drive(V, cfg)
        obs = observe(snd, rcv, c)
        res = {"_n_steps": len(obs["steps"]), "_n_msgs": len(obs["msgs"])}
        if not V.symbolic:
            return _concrete_diff(cfg, obs)
        cw = compiled_windows(cfg, obs)
        conj = []
        if cw is not None:
            for k, st in enumerate(obs["steps"]):
                for j, (a_seq, a_sent, a_recv, _) in enumerate(st["window"]):
                    c_seq, c_sent, c_recv = cw[k][j]
                    if a_seq < 0:
                        conj.append(z3.BoolVal(True) if (not isinstance(c_seq, z3.ExprRef) and c_seq < 0) else (c_seq < 0 if isinstance(c_seq, z3.ExprRef) else z3.BoolVal(False)))
                    else:
                        conj.append((c_seq == a_seq) if isinstance(c_seq, z3.ExprRef) else z3.BoolVal(c_seq == a_seq))
                        conj.append(_eq(c_sent, a_sent))
                        conj.append(_eq(c_recv, a_recv))
        res["for every executed receiver step: window handed asynchronously == apply_window(record.to_graph()) window (seq, ts_sent, ts_recv, oldest first)"] = SymBool(z3.And(*conj)) if conj else True
        res["the asynchronous step k carries sequence number k and start time == recorded ts_start"] = SymBool(z3.And(*[z3.And(z3.BoolVal(st["seq"] == k), _eq(T(st["ts"]) if isinstance(st["ts"], Sym) else st["ts"], obs["r_steps"][k][1])) for k, st in enumerate(obs["steps"])])) if obs["steps"] else True
        res["twin:some step saw a real message"] = any(e[0] >= 0 for st in obs["steps"] for e in st["window"])
        res["twin:scenario reached the horizon"] = len(obs["steps"]) == cfg["K"]
        return res

    return scenario


def _eq(a, b):
    from vlib.pysym import Sym, T, _frac
    ta = T(a) if isinstance(a, Sym) else (a if isinstance(a, z3.ExprRef) else z3.RealVal(_frac(a)))
    tb = T(b) if isinstance(b, Sym) else (b if isinstance(b, z3.ExprRef) else z3.RealVal(_frac(b)))
    return ta == tb


def _concrete_diff(cfg, obs):
    """replay: the same comparison with the real apply_window on float records"""
    import jax
    from rex import base, utils
    from props.c07 import _build

    W = cfg["W"]
    n_s, n_r = len(obs["s_steps"]), len(obs["r_steps"])
    msgs = [m for m in obs["msgs"] if m[1] <= n_r - 1]
    name = "for every executed receiver step: window handed asynchronously == apply_window(record.to_graph()) window (seq, ts_sent, ts_recv, oldest first)"
    name2 = "the asynchronous step k carries sequence number k and start time == recorded ts_start"
    res = {name: True, name2: all(st["seq"] == k and abs(float(st["ts"]) - float(obs["r_steps"][k][1])) < 1e-9 for k, st in enumerate(obs["steps"]))}
    if n_s == 0 or n_r == 0 or not msgs:
        return res
    nodes, graph0, Wtot = _build(W, n_s, n_r, len(msgs), False)
    a = lambda xs, dt: np.asarray([float(x) if dt != np.int32 else int(x) for x in xs], dt)
    g = base.Graph(vertices={"snd": base.Vertex(seq=a([s[0] for s in obs["s_steps"]], np.int32), ts_start=a([s[1] for s in obs["s_steps"]], np.float64), ts_end=a([s[2] for s in obs["s_steps"]], np.float64)),
                             "rcv": base.Vertex(seq=a([s[0] for s in obs["r_steps"]], np.int32), ts_start=a([s[1] for s in obs["r_steps"]], np.float64), ts_end=a([s[2] for s in obs["r_steps"]], np.float64))},
                   edges={("snd", "rcv"): base.Edge(seq_out=a([m[0] for m in msgs], np.int32), seq_in=a([m[1] for m in msgs], np.int32), ts_recv=a([m[3] for m in msgs], np.float64))})
    if cfg.get("pad", 0):
        g = jax.tree_util.tree_map(lambda x: np.concatenate([x, -np.ones(cfg["pad"], x.dtype)]), g)
    with jax.experimental.enable_x64():
        win = utils.apply_window(nodes, g).vertices["rcv"].windows["snd"]
    ok = True
    for k, st in enumerate(obs["steps"]):
        for j, (a_seq, a_sent, a_recv, _) in enumerate(st["window"]):
            cs, csent, crecv = int(win.seq[k, j]), float(win.ts_sent[k, j]), float(win.ts_recv[k, j])
            if a_seq < 0:
                ok &= cs < 0
            else:
                ok &= cs == a_seq and abs(csent - float(a_sent)) < 1e-6 and abs(crecv - float(a_recv)) < 1e-6
    res[name] = ok
    return res


def scen_orders(cfg):
    from props.c13 import _conj, _same

    def scenario(V):
        a = observe(*drive(V, cfg, cfg["order_a"]))
        b = observe(*drive(V, cfg, cfg["order_b"]))
        # the tick bounds cut the episode at slightly different points under different orders (a rule that became enabled by the very last
        # announced message is only re-attempted at the next announcement): compare the common prefix, as the property states
        n = min(len(a["steps"]), len(b["steps"]))
        ns = min(len(a["s_steps"]), len(b["s_steps"]))
        strip = lambda o: dict(steps=[(s["seq"], s["ts"], [(e[0], e[1], e[2]) for e in s["window"]]) for s in o["steps"][:n]], msgs=[m for m in o["msgs"] if m[1] < n],
                               s_steps=o["s_steps"][:ns], r_steps=o["r_steps"][:n])
        return {f"records under task orders '{cfg['order_a']}' and '{cfg['order_b']}' agree on their common prefix (steps, times, seq_in, windows)": _conj(V, _same(V, strip(a), strip(b))),
                "twin:a common prefix exists": n >= 1}

    return scenario


def worker(cfg, tier):
    import rex.asynchronous as A
    from props.c03 import _to_obs
    from vlib import pysym

    res, stats = pysym.run_scenario(scen_diff(cfg), [A], extra_patch={"rex.asynchronous": {"onp": pysym.FakeNumpy(A.onp)}},
                                    timeout_ms=60000, max_paths=4000 if tier == "quick" else 30000)
    keymap = {r["name"]: "async-vs-compiled-window" for r in res}
    whatmap = {r["name"]: f"compiled replay differs from the recorded asynchronous execution: {r['name']}" for r in res}
    obs, stats = _to_obs(res, stats, cfg, "differential", keymap, whatmap)
    if obs:
        obs[0].detail = {"stats": stats}
        obs[0].queries += stats["queries"]
    return obs


def worker_orders(cfg, tier):
    import rex.asynchronous as A
    from props.c03 import _to_obs
    from vlib import pysym

    res, stats = pysym.run_scenario(scen_orders(cfg), [A], extra_patch={"rex.asynchronous": {"onp": pysym.FakeNumpy(A.onp)}}, timeout_ms=60000, max_paths=4000)
    keymap = {r["name"]: "determinism:task-order" for r in res}
    whatmap = {r["name"]: f"simulated-clock determinism: {r['name']} -- violated" for r in res}
    obs, stats = _to_obs(res, stats, cfg, "orders", keymap, whatmap)
    if obs:
        obs[0].detail = {"stats": stats}
    return obs


def worker_threading(inst, tier):
    """L-step (engine B): inside one compiled partition every executed step is handed the state returned by the node's previous executed
    step (or the graph state's, for the first), the rng that step returned (every step advances its key), its own slot's seq/ts and the
    unchanged params; afterwards the graph state carries the last returned state and rng and seq+1.  Run masks, seqs and the whole state are
    symbolic; step functions are uninterpreted."""
    import jax
    from vlib import cg, fixtures, jx, smt

    nodes, cgr, g = cg.build(inst, node_cls=fixtures.OracleNodeRng)
    tr_split = jx.Traced(lambda r: jax.random.split(r)[0], jax.random.PRNGKey(0))
    gs0 = g.init(jax.random.PRNGKey(1))
    sup = g.supervisor.name
    per_kind, uniform, n_gen = cg.slot_order(g)
    calls = cg.UFCalls()
    it = jx.Interp(callback_handler=calls.handler)
    alg = it.alg
    tr = jx.Traced(g.run, gs0)
    flat = tr.sym_inputs(it, "g")
    gin = tr.in_pytree(flat)[0]
    out = tr.run(it, flat)
    step_in = gin.step.item()
    assume = [step_in >= 0, step_in <= g.max_steps - 1]
    obs = []
    for kind, slots in list(per_kind.items()) + [(sup, [(g._supervisor_slot, n_gen)])]:
        cs = calls.by_tag(f"oracle_step_{kind}")
        if len(cs) != len(slots):
            obs.append(Ob(f"threading [{kind}]", "error", 0, inst, detail="occurrence/slot mismatch (see C06)"))
            continue
        conj = []
        cur_state = alg.z(gin.state[kind].x.item(), "f")
        cur_seq = None
        cur_rng = [alg.z(x, "i") for x in gin.rng[kind].flat()]
        for c, (sname, rnd) in zip(cs, slots):
            sl = gin.timings_eps.slots[sname]
            G = alg.z(c["guard"]) if kind != sup else z3.BoolVal(True)
            seq_s = cg.sel(alg, sl.seq, step_in).item()
            conj.append(z3.Implies(G, z3.And(alg.z(c["args"][2].item(), "f") == cur_state, alg.z(c["args"][0].item(), "i") == seq_s)))
            handed = [alg.z(x, "i") for x in c["args"][-1].flat()]
            conj.append(z3.Implies(G, z3.And(*[h == r for h, r in zip(handed, cur_rng)])))
            nxt = [alg.z(x, "i") for x in tr_split.run(it, [c["args"][-1]]).flat()]  # the key the step returns: split(handed)[0]
            cur_rng = [z3.If(G, n_, r) for n_, r in zip(nxt, cur_rng)]
            ret_state = alg.z(c["outs"][0].v[0], "f")
            cur_state = z3.If(G, ret_state, cur_state)
            cur_seq = z3.If(G, seq_s + 1, cur_seq) if cur_seq is not None else z3.If(G, seq_s + 1, alg.z(gin.seq[kind].item(), "i"))
        conj.append(alg.z(out.state[kind].x.item(), "f") == cur_state)
        conj.append(alg.z(out.seq[kind].item(), "i") == cur_seq)
        conj.append(z3.And(*[alg.z(x, "i") == r for x, r in zip(out.rng[kind].flat(), cur_rng)]))
        e = jx.tree_equal(alg, out.params[kind], gin.params[kind])
        conj.append(e if not isinstance(e, bool) else z3.BoolVal(e))
        v, m, s = smt.check(assume, z3.And(*conj), 120)
        o = Ob(f"compiled partition threads state/seq/rng/params from one executed step of a node to the next [{'supervisor' if kind == sup else 'node'}]", v, s, inst,
               key="compiled-threading", what="the compiled runner hands a step a state/seq that is not the previous step's result / the slot's, or alters rng/params")
        if v == "sat":
            from props.c06 import _replay_compiled
            o.replayed = _replay_threading(inst, m, tr, flat, kind)
        obs.append(o)
    return obs


def _replay_threading(inst, model, tr, flat, kind):
    """real run with the logging oracle: the state handed to each executed step must be the previous executed step's returned state"""
    import jax
    from vlib import cg, fixtures

    try:
        args = cg.model_inputs(model, tr, flat)
        gs = args[0]
        fixtures.CALL_LOG.clear()
        out = tr.fn(*args)
        prev = float(gs.state[kind].x)
        exp_seq = int(gs.seq[kind])
        cur_rng = np.asarray(gs.rng[kind])
        bad = False
        for tag, a in fixtures.CALL_LOG:
            if tag != f"oracle_step_{kind}":
                continue
            exp_seq = int(a[0]) + 1
            if not np.array_equal(np.asarray(a[-1]), cur_rng):
                bad = True
            cur_rng = np.asarray(jax.random.split(jax.numpy.asarray(a[-1]))[0])
            if abs(float(a[2]) - prev) > 1e-5 * max(1.0, abs(prev)):
                bad = True
            # what the logging oracle returned as new state: element 0 of its deterministic result
            tg = f"step_{kind}"
            h = (sum(ord(ch) for ch in tg) % 17) * 0.0625
            for i, x in enumerate(a):
                h += float(np.sum(np.asarray(x, dtype=np.float64))) * (0.5 + 0.25 * i + (sum(ord(ch) for ch in tg) % 5) * 0.125)
            prev = float(np.float32(0.125 + h))
        if abs(float(out.state[kind].x) - prev) > 1e-4 * max(1.0, abs(prev)):
            bad = True
        if int(out.seq[kind]) != exp_seq or not np.array_equal(np.asarray(out.rng[kind]), cur_rng):
            bad = True
        return bad
    except BaseException:  # noqa
        return None


def order_configs():
    out = []
    for blocking, skip, jitter in ((False, False, "latest"), (False, True, "latest"), (True, False, "latest")):
        for oa, ob in (("sender-first", "receiver-first"), ("sender-first", "connection-first")):
            out.append(dict(M=2, K=2, W=1, rate_in=10, rate_out=20, blocking=blocking, skip=skip, jitter=jitter, order_a=oa, order_b=ob))
    return out


def configs(tier):
    th = tier == "thorough"
    out = []
    pols = [(False, False, "latest"), (False, True, "latest"), (False, False, "buffer"), (True, False, "latest"), (True, True, "latest")]
    rates = [(10, 20), (20, 10)] if not th else [(10, 20), (20, 10), (10, 10), (10, 13)]
    for blocking, skip, jitter in pols:
        for (ri, ro) in rates:
            for W in ((1, 2) if not th else (1, 2, 3)):
                if not th and W == 2 and (ri, ro) == (20, 10):
                    continue
                M, K = (2, 2) if not th else (3, 3)
                if ro > ri and not th and jitter != "buffer" and not blocking:
                    M = 3
                if th and (jitter == "buffer" or blocking):
                    M, K = (3, 2) if ro > ri else (2, 3)
                out.append(dict(M=M, K=K, W=W, rate_in=ri, rate_out=ro, blocking=blocking, skip=skip, jitter=jitter))
    # scheduling / advance variants of the two nodes (PHASE scheduling, an advancing receiver that only waits for its blocking input)
    var = [dict(M=2, K=2, W=1, rate_in=10, rate_out=20, blocking=False, skip=False, jitter="latest", sched_rcv="phase", sched_snd="phase"),
           dict(M=2, K=2, W=1, rate_in=10, rate_out=10, blocking=True, skip=False, jitter="latest", advance=True),
           # a window larger than the group a step consumes (2 messages per step, window 3): the step keeps one message of the previous group
           dict(M=3, K=2, W=3, rate_in=10, rate_out=20, blocking=False, skip=False, jitter="latest"),
           # the recorded episode as a member of a ragged stack (trailing -1 vertices/edges) with a receiver that steps more often than it receives
           dict(M=2, K=3, W=1, rate_in=20, rate_out=10, blocking=False, skip=False, jitter="latest", pad=1)]
    if th:
        var += [dict(M=3, K=2, W=2, rate_in=10, rate_out=20, blocking=True, skip=False, jitter="latest", sched_rcv="phase"),
                dict(M=2, K=3, W=1, rate_in=20, rate_out=10, blocking=False, skip=True, jitter="latest", sched_snd="phase"),
                dict(M=3, K=2, W=1, rate_in=10, rate_out=20, blocking=True, skip=True, jitter="latest", advance=True, sched_rcv="phase"),
                dict(M=2, K=2, W=2, rate_in=10, rate_out=10, blocking=False, skip=False, jitter="buffer", sched_rcv="phase", sched_snd="phase")]
    return out + var


def run(rep):
    import rex.asynchronous as A
    from rex import base, utils
    from vlib.common import pmap

    rep.technique = ("two-sided symbolic differential: the real asynchronous handlers (engine A, proxy execution, all feasible paths) produce per-step windows and "
                     "records on symbolic timings; the real EpisodeRecord.to_graph and the jaxpr of the real utils.apply_window (engine B) are evaluated on those very "
                     "records; z3 decides window equality for every executed step on every path; counterexamples replayed with floats on both real sides")
    W, N = A._AsyncConnectionWrapper, A._AsyncNodeWrapper
    rep.encode(N.push_scheduled_ts, N.push_phase_shift, N.push_step, W.push_ts_input, W.push_input, W.push_zip, W.push_expected_nonblocking, W.push_expected_blocking,
               W.push_ts_max, W.push_selection, base.EpisodeRecord.to_graph, utils.apply_window)
    cfgs = configs(rep.tier)
    rep.configs = cfgs
    rep.bounds = dict(messages=sorted({c["M"] for c in cfgs}), receiver_steps=sorted({c["K"] for c in cfgs}), windows=sorted({c["W"] for c in cfgs}),
                      rate_pairs=sorted({(c["rate_in"], c["rate_out"]) for c in cfgs}), policies="LATEST/BUFFER x skip x blocking", connections=1)
    rep.assumptions = ["LEMMA-CHAIN CLAIM: this check decides the timing/window differential for one connection; payload identity is C08, step-state threading of the compiled runner "
                       "C09/C13, conversions C14, all supergraph modes x prune enter through C07/C08 -- the composition is a paper argument (DESIGN.md)",
                       "canonical task order (sender, connection, receiver) -- representative by C02's lemmas; simulated clock; delays >= 0; phases on the 1us grid",
                       "InputState.push modelled by its list semantics (decided separately by engine B in C03)"]
    rep.stubs = ["_submit -> recorder + single-worker executor simulation", "node.step -> deterministic opaque stand-in", "_jit_sample -> fresh non-negative delays"]
    obs = pmap("props.c01", "worker", cfgs, rep.tier)
    from rex import partition_runner
    from vlib import cg
    rep.encode(partition_runner.make_run_partition_excl_supervisor, partition_runner.make_update_state)
    tinst = cg.instances(rep.tier, small=True)
    rep.configs = cfgs + tinst
    obs += pmap("props.c01", "worker_threading", tinst, rep.tier)
    rep.paths = sum((o.get("detail") or {}).get("stats", {}).get("paths", 0) for o in obs if isinstance(o.get("detail"), dict))
    rep.add_all(obs)


def replay(rp):
    return False
