"""C07 clause A (engine A): utils.to_connected_graph (prune=False) attaches every vertex that is not an ancestor of the last supervisor
vertex to the first supervisor vertex (in start-time order) that starts at or after its end, and to none if there is none; existing
edges are kept.  Vertex times are solver symbols; tiny DAG shapes are enumerated."""
import itertools

import z3


class _Sup:
    name = "s"


def scen(cfg):
    def scenario(V):
        import networkx as nx
        from rex import utils
        from props.c03 import _allv
        from vlib.pysym import SymBool, zb

        n_sup, n_anc, n_free = cfg["n_sup"], cfg["n_anc"], cfg["n_free"]
        G = nx.DiGraph()
        sup = []
        for i in range(n_sup):
            t0 = V.grid(f"s{i}_start", lo=0, hi=4)
            G.add_node(f"s_{i}", kind="s", seq=i, ts_start=t0, ts_end=t0 + V.grid(f"s{i}_d", lo=0, hi=1))
            sup.append(f"s_{i}")
            if i:
                V.assume(G.nodes[f"s_{i}"]["ts_start"] >= G.nodes[f"s_{i-1}"]["ts_end"])
                G.add_edge(f"s_{i-1}", f"s_{i}")
        for j in range(n_anc):  # vertices that already feed the supervisor
            t0 = V.grid(f"a{j}_start", lo=0, hi=4)
            G.add_node(f"a_{j}", kind="a", seq=j, ts_start=t0, ts_end=t0 + V.grid(f"a{j}_d", lo=0, hi=1))
            G.add_edge(f"a_{j}", sup[min(j, n_sup - 1)])
        free = []
        for j in range(n_free):  # vertices nothing downstream depends on
            t0 = V.grid(f"f{j}_start", lo=0, hi=4)
            G.add_node(f"f_{j}", kind="f", seq=j, ts_start=t0, ts_end=t0 + V.grid(f"f{j}_d", lo=0, hi=1))
            free.append(f"f_{j}")
            if j and cfg.get("chain"):
                G.add_edge(f"f_{j-1}", f"f_{j}")
        before = set(G.edges)
        H = utils.to_connected_graph(G, _Sup(), nodes=None)
        new = set(H.edges) - before
        ok = []
        for f in free:
            outs = [v for (u, v) in new if u == f]
            te = G.nodes[f]["ts_end"]
            elig = [bool(G.nodes[s]["ts_start"] >= te) for s in sup]  # forks: fixes the order facts on this path
            want = [s for s, e in zip(sup, elig) if e][:1]
            ok.append(outs == want)
        return {
            "every non-ancestor is attached to exactly the first supervisor vertex starting at/after its end (none if there is none)": all(ok),
            "existing edges are kept and only non-ancestors get new edges": before <= set(H.edges) and all(u in free for (u, v) in new) and set(H.nodes) == set(G.nodes),
            "twin:some vertex attached": len(new) >= 1,
        }

    return scenario


def worker(cfg, tier):
    import rex.utils as U
    from props.c03 import _to_obs
    from vlib import pysym

    res, stats = pysym.run_scenario(scen(cfg), [U], timeout_ms=30000, patch_names=("float", "round"), max_paths=6000)
    keymap = {r["name"]: "attach" for r in res}
    whatmap = {r["name"]: f"to_connected_graph (prune=False): {r['name']} -- violated" for r in res}
    obs, stats = _to_obs(res, stats, cfg, "attach", keymap, whatmap)
    if obs:
        obs[0].detail = {"stats": stats}
    return obs


def run_all(rep):
    from rex import utils
    from vlib.common import pmap

    rep.encode(utils.to_connected_graph)
    cfgs = [dict(n_sup=2, n_anc=1, n_free=1), dict(n_sup=2, n_anc=1, n_free=2), dict(n_sup=3, n_anc=1, n_free=2, chain=True)]
    if rep.tier == "thorough":
        cfgs += [dict(n_sup=3, n_anc=2, n_free=3), dict(n_sup=2, n_anc=0, n_free=3, chain=True)]
    rep.configs = list(rep.configs) + cfgs
    return pmap("props.c07_attach", "worker", cfgs, rep.tier)
