"""C17 — parameter transforms are invertible and compose in order.

Engine B over reals: Denormalize / Exponential / Identity / Shared / Chain / Extend.apply of rex.base on symbolic parameter trees.
(Extend.inv is not part of the property statement and is not claimed.)
"""
import time
from fractions import Fraction

import numpy as np
import z3

from vlib.common import Ob


def _trees():
    import jax.numpy as jnp

    f = lambda *s: jnp.zeros(s, jnp.float32)
    return {
        "flat": dict(x={"a": f(), "b": f(2)}),
        "nested-with-None": dict(x={"p": {"q": f(), "r": None}, "s": (f(2), None)}),
        # leaves of different, mutually non-broadcastable shapes (e.g. a 2-vector state and a 3-vector offset), a matrix, a None leaf
        "mixed-shapes": dict(x={"init_state": f(2), "offset_xyz": f(3), "gain": f(2, 2), "skip": None}),
    }


def _and(*xs):
    ys = [z3.BoolVal(x) if isinstance(x, bool) else x for x in xs]
    return z3.And(*ys) if ys else z3.BoolVal(True)


def worker(cfg, tier):
    import jax
    import jax.numpy as jnp
    from rex.base import Chain, Denormalize, Exponential, Extend, Identity, Shared, Transform
    from vlib import cg, jx, smt

    which = cfg["which"]
    obs = []
    tmo = 60 if tier == "quick" else 300
    it = jx.Interp()
    alg = it.alg
    leaves = lambda t: [x for sa in jax.tree_util.tree_leaves(t, is_leaf=lambda x: isinstance(x, jx.SA)) for x in sa.flat()]

    if which == "denormalize":
        x0 = _trees()[cfg["tree"]]["x"]

        def fn(mn, mx, x, x2):
            t = Denormalize.init(mn, mx)
            neg1 = jax.tree_util.tree_map(lambda v: -jnp.ones_like(v), x)
            pos1 = jax.tree_util.tree_map(lambda v: jnp.ones_like(v), x)
            return dict(inv_apply=t.inv(t.apply(x)), apply_inv=t.apply(t.inv(x)), at_m1=t.apply(neg1), at_p1=t.apply(pos1), ax=t.apply(x), ax2=t.apply(x2))

        try:
            tr = jx.Traced(fn, x0, x0, x0, x0)
        except Exception as ex:  # the real Denormalize.init raises on this tree (bounds with min < max everywhere)
            ok = None
            try:
                lo = jax.tree_util.tree_map(lambda v: -jnp.ones_like(v), x0)
                hi = jax.tree_util.tree_map(lambda v: jnp.ones_like(v), x0)
                Denormalize.init(lo, hi)
                ok = False
            except Exception:
                ok = True
            obs.append(Ob(f"denormalize: init accepts every tree of bounds with min < max [{cfg['tree']}]", "sat", 0, cfg, key="denorm-init", replayed=ok, trivial=True,
                          detail=f"{type(ex).__name__}: {str(ex)[:200]}", what=f"Denormalize.init raises on bounds whose leaves have different shapes / no array leaves ({type(ex).__name__})"))
            return obs
        obs.append(Ob(f"denormalize: init accepts every tree of bounds with min < max [{cfg['tree']}]", "unsat", 0, cfg, key="denorm-init", trivial=True, replayed=True))
        flat = tr.sym_inputs(it, "d")
        mn, mx, x, x2 = tr.in_pytree(flat)
        pre = [a < b for a, b in zip(leaves(mn), leaves(mx))]
        for name, g, key in [
            ("denormalize: inv(apply(x)) == x", lambda i, o: _and(jx.tree_equal(alg, o["inv_apply"], i[2])), "denorm-inv"),
            ("denormalize: apply(inv(y)) == y", lambda i, o: _and(jx.tree_equal(alg, o["apply_inv"], i[2])), "denorm-inv2"),
            ("denormalize: apply(-1) == min and apply(+1) == max", lambda i, o: _and(jx.tree_equal(alg, o["at_m1"], i[0]), jx.tree_equal(alg, o["at_p1"], i[1])), "denorm-ends"),
            ("denormalize: strictly increasing", lambda i, o: z3.And(*[z3.Implies(a < b, fa < fb) for a, b, fa, fb in zip(leaves(i[2]), leaves(i[3]), leaves(o["ax"]), leaves(o["ax2"]))]), "denorm-monotone"),
        ]:
            obs.append(cg.prove_with_replay(f"{name} [{cfg['tree']}]", cfg, it, tr, flat, pre, g, key, f"Denormalize violates: {name}", timeout=tmo))
        v, m, s = smt.satisfiable(pre, 10)
        obs.append(Ob("twin.min<max satisfiable", v, s, cfg, kind="vacuity"))

    elif which == "exp_identity":
        x0 = _trees()[cfg["tree"]]["x"]
        tr = jx.Traced(lambda x: dict(e=Exponential.init().inv(Exponential.init().apply(x)), ea=Exponential.init().apply(x), i1=Identity.init().apply(x), i2=Identity.init().inv(x)), x0)
        flat = tr.sym_inputs(it, "e")
        x = tr.in_pytree(flat)[0]
        out = tr.run(it, flat)
        exp, log = jx.uf("exp"), jx.uf("log")
        xs = leaves(x)
        conj = [o == log(exp(a)) for o, a in zip(leaves(out["e"]), xs)] + [o == exp(a) for o, a in zip(leaves(out["ea"]), xs)]
        v, m, s = smt.check([], z3.And(*conj), tmo)
        o_ = Ob(f"exponential: apply == exp, inv(apply(x)) == log(exp(x)) (== x modulo the axiom log(exp x)=x) [{cfg['tree']}]", v, s, cfg, key="exp-pair", what="Exponential.inv/apply are not the log/exp pair")
        if v == "sat":
            o_.replayed = _replay_numeric(lambda x_: Exponential.init().inv(Exponential.init().apply(x_)), x0)
        obs.append(o_)
        v, m, s = smt.check([log(exp(a)) == a for a in xs], _and(jx.tree_equal(alg, out["e"], x)), tmo)
        obs.append(Ob(f"exponential: inv(apply(x)) == x under the axiom [{cfg['tree']}]", v, s, cfg, key="exp-inv", what="Exponential.inv(apply(x)) != x", replayed=None))
        e = jx.tree_equal(alg, out["i1"], x), jx.tree_equal(alg, out["i2"], x)
        obs.append(Ob(f"identity: apply and inv return the parameters [{cfg['tree']}]", "unsat" if all(v_ is True for v_ in e) else smt.check([], _and(*e), 10)[0], 0, cfg,
                      trivial=all(v_ is True for v_ in e), key="identity", what="Identity changes the parameters", replayed=True))

    elif which == "chain_concrete":
        x0 = {"a": jnp.zeros((), jnp.float32), "b": jnp.zeros((2,), jnp.float32)}
        exp, log = jx.uf("exp"), jx.uf("log")
        for order in ("denorm,exp", "exp,denorm"):
            def fn(mn, mx, x, _order=order):
                d, e = Denormalize.init(mn, mx), Exponential.init()
                ch = Chain.init(d, e) if _order == "denorm,exp" else Chain.init(e, d)
                return dict(ap=ch.apply(x), inv=ch.inv(x), sc=d.scale, of=d.offset)

            tr = jx.Traced(fn, x0, x0, x0)
            flat = tr.sym_inputs(it, "c")
            mn, mx, x = tr.in_pytree(flat)
            out = tr.run(it, flat)
            pre = [a < b for a, b in zip(leaves(mn), leaves(mx))]
            sc, of, xs = leaves(out["sc"]), leaves(out["of"]), leaves(x)
            if order == "denorm,exp":
                want_ap = [exp(a * s_ + o_) for a, s_, o_ in zip(xs, sc, of)]
                want_inv = [(log(a) - o_) / s_ for a, s_, o_ in zip(xs, sc, of)]
            else:
                want_ap = [exp(a) * s_ + o_ for a, s_, o_ in zip(xs, sc, of)]
                want_inv = [log((a - o_) / s_) for a, s_, o_ in zip(xs, sc, of)]
            goal = z3.And(*[g_ == w for g_, w in zip(leaves(out["ap"]), want_ap)] + [g_ == w for g_, w in zip(leaves(out["inv"]), want_inv)])
            v, m, s = smt.check(pre, goal, tmo)
            o_ = Ob(f"chain [{order}]: apply composes first-to-last, inv last-to-first", v, s, cfg, key="chain-order", what=f"Chain({order}) applies/inverts its members in the wrong order")
            if v == "sat":
                o_.replayed = _replay_chain(order)
            obs.append(o_)

    elif which == "chain_opaque":
        from flax import struct
        from vlib.fixtures import oracle_callback

        def mk(tag):
            @struct.dataclass
            class T(Transform):
                def apply(self, params):
                    return jax.tree_util.tree_map(lambda v: jax.pure_callback(oracle_callback(f"apply{tag}", v.shape), jax.ShapeDtypeStruct(v.shape, jnp.float32), v), params)

                def inv(self, params):
                    return jax.tree_util.tree_map(lambda v: jax.pure_callback(oracle_callback(f"inv{tag}", v.shape), jax.ShapeDtypeStruct(v.shape, jnp.float32), v), params)

            return T()

        A, B, C = mk("A"), mk("B"), mk("C")
        x0 = {"a": jnp.zeros((), jnp.float32), "b": {"c": jnp.zeros((), jnp.float32)}}
        calls = cg.UFCalls()
        it2 = jx.Interp(callback_handler=calls.handler)
        ch = Chain.init(A, B, C)
        pairs = {"apply": (lambda x: ch.apply(x), lambda x: C.apply(B.apply(A.apply(x)))), "inv": (lambda x: ch.inv(x), lambda x: A.inv(B.inv(C.inv(x))))}
        flat = None
        for nm, (fa, fb) in pairs.items():
            ta, tb = jx.Traced(fa, x0), jx.Traced(fb, x0)
            flat = flat or ta.sym_inputs(it2, "o")
            v, m, s, triv = cg.check_eq(it2.alg, ta.run(it2, flat), tb.run(it2, flat), timeout=tmo)
            o_ = Ob(f"chain of three opaque non-commuting transforms: {nm} order", v, s, cfg, trivial=triv, key="chain-order-opaque",
                    what=f"Chain.{nm} does not compose its members in the documented order")
            if v == "sat":
                from props.c09 import _replay_pair
                o_.replayed = _replay_pair(fa, fb, (jax.tree_util.tree_map(lambda v_: v_ + 0.375, x0),))
            obs.append(o_)
        # the oracles really are distinguishable (otherwise order could not be observed)
        ta = jx.Traced(lambda x: (C.apply(B.apply(A.apply(x))), A.apply(B.apply(C.apply(x)))), x0)
        o1, o2 = ta.run(it2, flat)
        e = jx.tree_equal(it2.alg, o1, o2)
        v, m, s = smt.satisfiable([z3.Not(_and(e))], 10)
        obs.append(Ob("twin.opaque transforms do not commute", v, s, cfg, kind="vacuity"))

    elif which == "shared":
        x0 = {"a": None, "b": jnp.zeros((2,), jnp.float32), "c": {"d": jnp.zeros((), jnp.float32)}}
        t = Shared.init(where=lambda p: p["a"], replace_fn=lambda p: p["b"])
        tr = jx.Traced(lambda x: dict(ap=t.apply(x), rt=t.inv(t.apply(x))), x0)
        flat = tr.sym_inputs(it, "s")

        def g(i, o):
            x = i[0]
            return _and(jx.sa_equal(alg, o["ap"]["a"], x["b"]), jx.sa_equal(alg, o["ap"]["b"], x["b"]), jx.tree_equal(alg, o["ap"]["c"], x["c"]),
                        o["rt"]["a"] is None, jx.sa_equal(alg, o["rt"]["b"], x["b"]), jx.tree_equal(alg, o["rt"]["c"], x["c"]))

        obs.append(cg.prove_with_replay("shared: apply copies the shared leaf; inv(apply(x)) == x on its domain (shared leaf absent)", cfg, it, tr, flat, [], g,
                                        "shared", "Shared.apply/inv do not share/restore the parameter"))

    elif which == "extend":
        f = lambda: jnp.zeros((), jnp.float32)
        base = {"a": f(), "b": {"c": f(), "d": jnp.zeros((2,), jnp.float32)}}
        leafN, subN = {"a": None, "b": {"c": f(), "d": None}}, {"a": f(), "b": None}
        SAME = object()
        # (label, tree applied, tree the transform was initialised with): the result depends on the applied tree only
        for label, opt, opt_init in (("leaf-level None", leafN, SAME), ("subtree None", subN, SAME), ("nothing missing", base, SAME),
                                     ("leaf-level None, initialised without opt_params (documented default)", leafN, None),
                                     ("leaf-level None, initialised with another pattern", leafN, subN), ("subtree None, initialised with another pattern", subN, leafN),
                                     ("nothing missing, initialised with a partial tree", base, leafN)):
            opt_init = opt if opt_init is SAME else opt_init
            tr = jx.Traced(lambda b, o, _oi=opt_init: Extend.init(b, _oi).apply(o), base, opt)
            flat = tr.sym_inputs(it, "x")

            def g(i, o, _opt=opt):
                b, op = i
                conj = []
                conj.append(jx.sa_equal(alg, o["a"], op["a"] if _opt["a"] is not None else b["a"]))
                if _opt["b"] is None:
                    conj += [jx.sa_equal(alg, o["b"]["c"], b["b"]["c"]), jx.sa_equal(alg, o["b"]["d"], b["b"]["d"])]
                else:
                    conj.append(jx.sa_equal(alg, o["b"]["c"], op["b"]["c"] if _opt["b"]["c"] is not None else b["b"]["c"]))
                    conj.append(jx.sa_equal(alg, o["b"]["d"], op["b"]["d"] if _opt["b"]["d"] is not None else b["b"]["d"]))
                return _and(*conj)

            obs.append(cg.prove_with_replay(f"extend [{label}]: exactly the missing leaves come from the base tree, supplied leaves untouched", cfg, it, tr, flat, [], g,
                                            "extend", "Extend.apply fills the wrong leaves or alters supplied ones"))
    return obs


def _replay_numeric(fn, x0):
    import jax
    import jax.numpy as jnp

    try:
        # exp/log are uninterpreted in the solver's model, so its witness need not be a failing *number*: probe several magnitudes of the parameter
        # (all well inside float32's normal range for exp) and report the violation if any of them fails on the real function
        for shift in (0.7, -3.0, 5.0, -20.0, -30.0, -60.0, 20.0, 60.0):
            x = jax.tree_util.tree_map(lambda v: v + shift, x0)
            y = fn(x)
            if not all(np.allclose(np.asarray(a), np.asarray(b), atol=1e-4, rtol=1e-5) for a, b in zip(jax.tree_util.tree_leaves(y), jax.tree_util.tree_leaves(x))):
                return True
        return False
    except BaseException:  # noqa
        return None


def _replay_chain(order):
    import jax.numpy as jnp
    from rex.base import Chain, Denormalize, Exponential

    try:
        mn, mx = {"a": jnp.float32(1.0)}, {"a": jnp.float32(3.0)}
        d, e = Denormalize.init(mn, mx), Exponential.init()
        ch = Chain.init(d, e) if order == "denorm,exp" else Chain.init(e, d)
        for xv, yv in ((0.25, 2.5), (-3.0, 2.0 + 1e-3), (1.5, 1e-12 if order == "denorm,exp" else 2.0 + 1e-12), (-22.0, 4e9 if order == "denorm,exp" else 5e7)):
            x, y = {"a": jnp.float32(xv)}, {"a": jnp.float32(yv)}
            want = np.exp(np.float64(xv) * 1.0 + 2.0) if order == "denorm,exp" else np.exp(np.float64(xv)) * 1.0 + 2.0
            yv32 = np.float64(np.float32(yv))
            want_inv = (np.log(yv32) - 2.0) / 1.0 if order == "denorm,exp" else np.log((yv32 - 2.0) / 1.0)
            if not (np.allclose(float(ch.apply(x)["a"]), want, atol=1e-5, rtol=1e-4) and np.allclose(float(ch.inv(y)["a"]), want_inv, atol=1e-3, rtol=1e-4)):
                return True
        return False
    except BaseException:  # noqa
        return None


def configs(tier):
    out = [dict(which="denormalize", tree=t) for t in ("flat", "nested-with-None", "mixed-shapes")]
    out += [dict(which="exp_identity", tree=t) for t in ("flat", "nested-with-None")]
    out += [dict(which="chain_concrete"), dict(which="chain_opaque"), dict(which="shared"), dict(which="extend")]
    return out


def run(rep):
    from rex import base, jax_utils
    from vlib.common import pmap

    rep.technique = ("jaxprs of the live Transform.apply/inv compositions interpreted over z3 reals on symbolic parameter trees; z3 decides round trips, "
                     "end points, monotonicity, composition order (concrete members against an independent closed form, opaque members as uninterpreted functions)")
    rep.encode(base.Denormalize.init, base.Denormalize.normalize, base.Denormalize.denormalize, base.Exponential.apply, base.Exponential.inv, base.Identity.apply,
               base.Chain.apply, base.Chain.inv, base.Shared.apply, base.Shared.inv, base.Extend.init, base.Extend.extend, jax_utils.tree_extend)
    cfgs = configs(rep.tier)
    rep.configs = cfgs
    rep.bounds = dict(trees=["dict of scalar+2-vector", "nested dict/tuple with None leaves"], leaves="<= 3 arrays, <= 4 cells")
    rep.assumptions = ["floats as reals (the property allows floating-point rounding)", "Exponential round trip is decided modulo the axiom log(exp x) = x",
                       "Extend.inv is not part of the property statement (and raises on this JAX version: baseline tests test_extend/test_chain fail); not claimed"]
    rep.add_all(pmap("props.c17", "worker", cfgs, rep.tier))


def replay(rp):
    return False
