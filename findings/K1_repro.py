"""K1 (C03): the real _AsyncConnectionWrapper.push_ts_input on a wrapper built like the check's harness, plain python floats.
Run: /verif/run.sh /verif/findings/K1_repro.py"""
from rex import base
from vlib import asyncsym, pysym

V = pysym.Vars(concrete={"snd_rcv_comm_d0": 0.0})  # sampled communication delay of the message: 0
rec = asyncsym.Recorder()
snd = asyncsym.mk_node(V, rec, "snd", 20)
rcv = asyncsym.mk_node(V, rec, "rcv", 10)
c = asyncsym.mk_conn(V, rec, snd, rcv)
c._prev_recv_sc = 0.0
sent = 4.999995e-07  # an off-grid send time (end of the producing step = start + sampled computation delay)
c.push_ts_input(sent, base.Header(eps=0, seq=0, ts=sent))
recv = c._prev_recv_sc
print(f"sent={sent!r} delay={c.delays[0]!r} -> recorded receive time {recv!r}; recorded delay {c.q_zip_delay[-1]!r}")
print("K1 reproduced (receive time precedes send time by <= 0.5 us)" if recv < sent and sent - recv <= 0.5e-6 else "K1 not reproduced")
