"""K2 (C10), reproduced through rex's public API only.  Run: /verif/run.sh /verif/findings/K2_repro.py
A 100 Hz sender with jittery computation delay feeds a 20 Hz receiver through a trainable (zoh) connection with delay 0.009 in
[0, 0.01], window 1.  The same system with a static 0.009 delay hands receiver step 8 message 40; the trainable one hands it
message 42, which only arrives at 0.4290 > ts_start = 0.42098."""
import jax, numpy as np
from distrax import Deterministic, Normal
from rex.artificial import generate_graphs
from rex.base import TrainableDist
from rex.graph import Graph
from vlib.fixtures import ProbeNode


def build(trainable):
    snd = ProbeNode(name="sender", rate=100, delay_dist=Normal(0.005, 0.003))
    rcv = ProbeNode(name="receiver", rate=20, delay_dist=Deterministic(0.001))
    nodes = {n.name: n for n in [snd, rcv]}
    dd = TrainableDist.create(0.009, 0.0, 0.01) if trainable else Deterministic(0.009)
    rcv.connect(snd, window=1, blocking=False, delay_dist=dd)
    cg = generate_graphs(nodes, 0.6, rng=jax.random.PRNGKey(1))
    g = Graph(nodes=nodes, supervisor=rcv, graphs_raw=cg, progress_bar=False)
    gs = g.init_record(g.init(jax.random.PRNGKey(0)), inputs=True)
    gs = g.rollout(gs)
    st = gs.aux["record"].nodes["receiver"].steps
    return np.asarray(st.ts_start), np.asarray(st.inputs["sender"].seq)[:, 0], np.asarray(st.inputs["sender"].ts_recv)[:, 0]


if __name__ == "__main__":
    ts, seq_t, recv_t = build(True)
    _, seq_s, recv_s = build(False)
    bad = [(k, float(ts[k]), int(seq_t[k]), float(recv_t[k]), int(seq_s[k])) for k in range(len(ts))
           if seq_t[k] != seq_s[k] and ts[k] >= 0]
    for k, t, a, r, b in bad:
        print(f"step {k} ts_start={t:.5f}: trainable sees msg {a} (arrives {r:.5f}{' > ts_start: ACAUSAL' if r > t else ''}), static sees msg {b}")
    print("K2 reproduced" if bad else "K2 not reproduced")
