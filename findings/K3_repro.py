"""K3 (C18), public API only. Run: /verif/run.sh /verif/findings/K3_repro.py"""
import jax.numpy as jnp
from rex.cem import CEMSolver, cem_update_mean_stdev

solver = CEMSolver.init(u_min={"a": jnp.float32(-1)}, u_max={"a": jnp.float32(1)}, num_samples=4, elite_portion=0.5)
state = solver.init_state({"a": jnp.float32(0.0)})
samples = {"a": jnp.array([0.1, 0.9, -0.9, 0.5], jnp.float32)}
losses = jnp.array([1.0, jnp.nan, jnp.nan, jnp.nan], jnp.float32)
new = cem_update_mean_stdev(solver, state, samples, losses)
# with 2 elites the new mean is 0.1*old + 0.9*mean(samples[elites]); elites = {0, 1}: candidate 1 has a NaN loss
print("new mean", float(new.mean["a"]), "(= 0.9*mean(0.1, 0.9) = 0.45 -> NaN-loss candidate 1 is an elite)")
print("K3 reproduced" if abs(float(new.mean["a"]) - 0.45) < 1e-6 else "K3 not reproduced")
