"""K4 (C12), public API only. Run: /verif/run.sh /verif/findings/K4_repro.py"""
import distrax, jax, numpy as np
from rex.artificial import generate_graphs
from rex.node import BaseNode

found = None
for seed in range(20):
    a = BaseNode(name="a", rate=50, delay_dist=distrax.Deterministic(0.001))
    b = BaseNode(name="b", rate=100, delay_dist=distrax.Deterministic(0.001))
    b.connect(a, delay=0.05, delay_dist=distrax.Normal(0.05, 0.03))   # jittery channel: arrivals get reordered
    g = generate_graphs({"a": a, "b": b}, 1.0, rng=jax.random.PRNGKey(seed))
    vb = np.asarray(g.vertices["b"].ts_start[0]); e = g.edges[("a", "b")]
    for j in range(len(np.asarray(e.seq_out[0]))):
        so, si, r = int(e.seq_out[0][j]), int(e.seq_in[0][j]), float(e.ts_recv[0][j])
        if so == -1 or si == -1:
            continue
        first = int(np.argmax(vb >= r))
        if si > first:
            found = (seed, so, r, si, float(vb[si]), first, float(vb[first]))
            break
    if found:
        break
if found:
    print("seed %d: message %d arrives at %.4f, first receiver step starting at/after that is %d (%.4f) but it is assigned to step %d (%.4f)" % (found[0], found[1], found[2], found[5], found[6], found[3], found[4]))
print("K4 reproduced" if found else "K4 not reproduced")
