"""K5 (C16), public API + the wrappers' reset: a delay distribution set after warm-up never reaches the threaded simulation.
Run: /verif/run.sh /verif/findings/K5_repro.py"""
import jax, jax.numpy as jnp
from distrax import Deterministic as D
from rex.asynchronous import AsyncGraph
from rex.constants import Clock, RealTimeFactor
from vlib.fixtures import ProbeNode
a = ProbeNode(name="sensor", rate=20, delay_dist=D(0.005))
b = ProbeNode(name="agent", rate=10, delay_dist=D(0.01))
b.connect(a, window=1, delay_dist=D(0.005))
g = AsyncGraph(nodes={"sensor": a, "agent": b}, supervisor=b, clock=Clock.SIMULATED, real_time_factor=RealTimeFactor.FAST_AS_POSSIBLE)
gs = g.init(jax.random.PRNGKey(1))
g.warmup(gs)
a.set_delay(delay_dist=D(0.02), delay=0.02)
b.inputs["sensor"].set_delay(delay_dist=D(0.03), delay=0.03)
print("node.delay_dist now:", float(a.delay_dist.mean()), " connection:", float(b.inputs["sensor"].delay_dist.mean()))
wa = g._async_nodes["sensor"]; wb = g._async_nodes["agent"]
for w in (wa, wb):
    w._reset(gs, clock=Clock.SIMULATED, real_time_factor=0)
_, s = wa._jit_sample(wa._dist_state, shape=2); print("sensor computation delays the next episode will use:", [float(x) for x in s])
ci = wb.inputs["sensor"]
_, s = ci._jit_sample(ci._dist_state, shape=2); print("connection delays the next episode will use:", [float(x) for x in s])
print("phases used by the next episode:", wa._phase, wb._phase, " node.phase:", a.phase, b.phase)
gs2 = g.init(jax.random.PRNGKey(1))
try:
    for w in (wa, wb): w._reset(gs2, clock=Clock.SIMULATED, real_time_factor=0)
    _, s = ci._jit_sample(ci._dist_state, shape=2); print("fresh graph state: connection delays:", [float(x) for x in s])
except Exception as e:
    print("fresh graph state ->", type(e).__name__, str(e)[:120])
