"""Solver helpers shared by both engines."""
import time

import z3


def _b(x):
    return z3.BoolVal(x) if isinstance(x, bool) else x


def check(assumptions, goal, timeout_s=60, tactic=None):
    """Is (assumptions => goal) valid?  Returns (verdict, model, secs) with verdict in
    'unsat' (valid), 'sat' (counterexample in model), 'unknown'."""
    t0 = time.time()
    if goal is True:
        return "unsat", None, 0.0
    s = z3.Solver() if tactic is None else z3.Then(*tactic).solver() if isinstance(tactic, (list, tuple)) else z3.Tactic(tactic).solver()
    s.set("timeout", int(timeout_s * 1000))
    for a in assumptions:
        if a is True:
            continue
        s.add(_b(a))
    s.add(z3.Not(_b(goal)))
    r = s.check()
    secs = time.time() - t0
    if r == z3.unsat:
        return "unsat", None, secs
    if r == z3.sat:
        return "sat", s.model(), secs
    return "unknown", None, secs


def satisfiable(constraints, timeout_s=60):
    """Reachability twin: are the assumptions satisfiable?  Returns (verdict, model, secs)."""
    t0 = time.time()
    s = z3.Solver()
    s.set("timeout", int(timeout_s * 1000))
    for a in constraints:
        if a is True:
            continue
        s.add(_b(a))
    r = s.check()
    secs = time.time() - t0
    return ("sat" if r == z3.sat else "unsat" if r == z3.unsat else "unknown"), (s.model() if r == z3.sat else None), secs


def export_smt2(assumptions, goal):
    s = z3.Solver()
    for a in assumptions:
        if a is not True:
            s.add(_b(a))
    s.add(z3.Not(_b(goal)))
    return s.to_smt2()


def nice_model(constraints, real_vars, int_vars=(), dens=(64, 1024, 65536), lo=-4, hi=64, timeout_s=30):
    """Re-solve `constraints` (already known sat) with every real variable on a dyadic grid k/den inside [lo, hi], so that
    the model is exactly representable in float32 and replays without rounding noise. Falls back to the plain model."""
    for den in dens:
        s = z3.Solver()
        s.set("timeout", int(timeout_s * 1000))
        for c in constraints:
            if c is not True:
                s.add(_b(c))
        for i, v in enumerate(real_vars):
            k = z3.Int(f"__grid{i}")
            s.add(v == z3.ToReal(k) / den, k >= lo * den, k <= hi * den)
        if s.check() == z3.sat:
            return s.model(), den
    s = z3.Solver()
    s.set("timeout", int(timeout_s * 1000))
    for c in constraints:
        if c is not True:
            s.add(_b(c))
    if s.check() == z3.sat:
        return s.model(), None
    return None, None


def free_vars(*terms):
    seen, out = set(), []

    def rec(t):
        if t.get_id() in seen:
            return
        seen.add(t.get_id())
        if z3.is_const(t) and t.decl().kind() == z3.Z3_OP_UNINTERPRETED:
            out.append(t)
        for c in t.children():
            rec(c)

    for t in terms:
        if isinstance(t, z3.ExprRef):
            rec(t)
    return out


def abstract_apps(formulas, prefix="F_"):
    """Replace every application of an uninterpreted function whose name starts with `prefix` by a fresh constant (same application ->
    same constant). Sound for proving validity (the abstraction is more general); lets nlsat handle formulas that mention oracle results."""
    table = {}
    seen = {}

    def collect(t):
        if t.get_id() in seen:
            return
        seen[t.get_id()] = True
        if z3.is_app(t) and t.num_args() > 0 and t.decl().kind() == z3.Z3_OP_UNINTERPRETED and t.decl().name().startswith(prefix):
            key = t.sexpr()
            if key not in table:
                table[key] = (t, z3.FreshConst(t.sort(), "abs"))
            return
        for c in t.children():
            collect(c)

    fs = [_b(f) for f in formulas if f is not True]
    for f in fs:
        collect(f)
    pairs = list(table.values())
    return [z3.substitute(f, *pairs) for f in fs] if pairs else fs
