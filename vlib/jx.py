"""Engine B: interpret the jaxpr of a live JAX function over numpy object arrays whose cells are z3 terms.

Numeric model 'real': float dtypes -> z3 Real (python Fraction when concrete), integer dtypes -> z3 Int (python int),
bool -> z3 Bool (python bool). PRNG keys -> opaque z3 datatype. Transcendentals -> uninterpreted functions.
Numeric model 'fp32' (subclass FPAlg): float dtypes -> z3 Float32 (RNE), used where NaN/inf are the subject.
"""
import itertools
import math
from fractions import Fraction

import numpy as np
import z3

BIG = Fraction(10**12)  # stands for +inf in the real model (inputs are assumed |t| <= 1e6)
INT_MIN = -(2**31)

_fresh_counter = itertools.count()
NAN = z3.Real("NaN_garbage")


def fresh(prefix, sort):
    return z3.Const(f"{prefix}!{next(_fresh_counter)}", sort)


# ---------------------------------------------------------------------------------------------------
# key sort
_Key = z3.Datatype("Key")
_Key.declare("mk", ("w0", z3.IntSort()), ("w1", z3.IntSort()))
Key = _Key.create()
f_split = z3.Function("rng_split", Key, z3.IntSort(), Key)
f_fold = z3.Function("rng_fold_in", Key, z3.IntSort(), Key)
f_bits = z3.Function("rng_bits", Key, z3.IntSort(), z3.IntSort())

_UF = {}


def uf(name, arity=1, sort=None):
    sort = sort if sort is not None else z3.RealSort()
    k = (name, arity, str(sort))
    if k not in _UF:
        _UF[k] = z3.Function(name, *([sort] * arity), sort)
    return _UF[k]


# ---------------------------------------------------------------------------------------------------
# scalar algebra
def isz(x):
    return isinstance(x, z3.ExprRef)


def is_nan_sym(x):
    """the real model's stand-in for IEEE NaN: it is *sticky* (any arithmetic on it yields it, ordered comparisons with it are false)"""
    return isinstance(x, z3.ExprRef) and x.eq(NAN)


def kind_of(dtype):
    dtype = np.dtype(dtype) if not _is_key_dtype(dtype) else dtype
    if _is_key_dtype(dtype):
        return "k"
    if dtype == np.bool_:
        return "b"
    if np.issubdtype(dtype, np.integer):
        return "i"
    if np.issubdtype(dtype, np.floating):
        return "f"
    raise NotImplementedError(f"dtype {dtype}")


def _is_key_dtype(dtype):
    return "key<" in str(dtype)


class RealAlg:
    """Scalar operations of the 'real' numeric model."""

    name = "real"

    def __init__(self):
        self.nan_syms = []

    # constants ------------------------------------------------------------------------------------
    def const(self, v, kind):
        if kind == "b":
            return bool(v)
        if kind == "i":
            return int(v)
        if kind == "f":
            v = float(v)
            if math.isinf(v):
                return BIG if v > 0 else -BIG
            if math.isnan(v):
                # one global unconstrained symbol: NaN garbage is "some value", the same in every evaluation
                return NAN
            return Fraction(v)  # exact binary value
        raise NotImplementedError(kind)

    def sym(self, name, kind):
        if kind == "b":
            return z3.Bool(name)
        if kind == "i":
            return z3.Int(name)
        if kind == "f":
            return z3.Real(name)
        if kind == "k":
            return z3.Const(name, Key)
        raise NotImplementedError(kind)

    def fresh(self, prefix, kind):
        return self.sym(f"{prefix}!{next(_fresh_counter)}", kind)

    # lifting --------------------------------------------------------------------------------------
    def z(self, x, kind=None):
        if isz(x):
            return x
        if isinstance(x, bool):
            return z3.BoolVal(x)
        if isinstance(x, int):
            if kind == "f":
                return z3.RealVal(x)
            return z3.IntVal(x)
        if isinstance(x, Fraction):
            return z3.RealVal(x)
        if isinstance(x, float):
            return z3.RealVal(Fraction(x))
        raise TypeError(type(x))

    def zf(self, x):
        return x if isz(x) else z3.RealVal(x)

    # arithmetic -----------------------------------------------------------------------------------
    def add(self, a, b, k):
        if is_nan_sym(a) or is_nan_sym(b):
            return NAN
        if not isz(a) and not isz(b):
            return a + b
        if not isz(a) and a == 0:
            return b
        if not isz(b) and b == 0:
            return a
        return self.z(a, k) + self.z(b, k)

    def sub(self, a, b, k):
        if is_nan_sym(a) or is_nan_sym(b):
            return NAN
        if not isz(a) and not isz(b):
            return a - b
        if not isz(b) and b == 0:
            return a
        return self.z(a, k) - self.z(b, k)

    def mul(self, a, b, k):
        if is_nan_sym(a) or is_nan_sym(b):
            return NAN
        if not isz(a) and not isz(b):
            return a * b
        for x, y in ((a, b), (b, a)):
            if not isz(x):
                if x == 0:
                    return 0 if k == "i" else Fraction(0)
                if x == 1:
                    return y
        return self.z(a, k) * self.z(b, k)

    def neg(self, a, k):
        if is_nan_sym(a):
            return NAN
        return -a

    def div(self, a, b, k):
        if is_nan_sym(a) or is_nan_sym(b):
            return NAN
        if k == "f":
            if not isz(b) and b == 0 and isz(a):
                return NAN  # x/0 for a symbolic x: +-inf or NaN in IEEE; modelled as the sticky garbage value
            if not isz(a) and not isz(b):
                if b == 0:
                    return BIG if a > 0 else (-BIG if a < 0 else self.const(float("nan"), "f"))
                return Fraction(a) / Fraction(b)
            if not isz(b) and b == 1:
                return a
            return self.z(a, k) / self.z(b, k)
        # integer: truncating division (XLA / C semantics)
        if not isz(a) and not isz(b):
            if b == 0:
                return -1
            q = abs(a) // abs(b)
            return q if (a >= 0) == (b >= 0) else -q
        if isz(b):
            raise NotImplementedError("integer division by a symbolic divisor")
        if b == 0:
            return -1
        az = self.z(a, "i")
        if b > 0:
            return z3.If(az >= 0, az / b, -((-az) / b))
        return z3.If(az >= 0, -(az / (-b)), (-az) / (-b))

    def rem(self, a, b, k):
        if k == "f":
            if not isz(a) and not isz(b):
                return Fraction(math.fmod(a, b)) if b != 0 else self.const(float("nan"), "f")
            raise NotImplementedError("float rem on symbolic values")
        if not isz(a) and not isz(b):
            if b == 0:
                return a
            r = abs(a) % abs(b)
            return r if a >= 0 else -r
        q = self.div(a, b, "i")
        return self.sub(a, self.mul(q, b, "i"), "i")

    def cmp(self, op, a, b, k):
        if is_nan_sym(a) or is_nan_sym(b):
            return op == "ne"
        if not isz(a) and not isz(b):
            return {"lt": a < b, "le": a <= b, "gt": a > b, "ge": a >= b, "eq": a == b, "ne": a != b}[op]
        if isz(a) and isz(b) and a.eq(b):
            return op in ("le", "ge", "eq")
        az, bz = self.z(a, k), self.z(b, k)
        return {"lt": az < bz, "le": az <= bz, "gt": az > bz, "ge": az >= bz, "eq": az == bz, "ne": az != bz}[op]

    def max(self, a, b, k):
        if is_nan_sym(a) or is_nan_sym(b):
            return NAN
        if k == "b":
            return self.or_(a, b)
        if not isz(a) and not isz(b):
            return max(a, b)
        if isz(a) and isz(b) and a.eq(b):
            return a
        az, bz = self.z(a, k), self.z(b, k)
        return z3.If(az >= bz, az, bz)

    def min(self, a, b, k):
        if is_nan_sym(a) or is_nan_sym(b):
            return NAN
        if k == "b":
            return self.and_(a, b)
        if not isz(a) and not isz(b):
            return min(a, b)
        if isz(a) and isz(b) and a.eq(b):
            return a
        az, bz = self.z(a, k), self.z(b, k)
        return z3.If(az <= bz, az, bz)

    def abs(self, a, k):
        if not isz(a):
            return abs(a)
        return z3.If(a >= 0, a, -a)

    def sign(self, a, k):
        one, zero = (1, 0) if k == "i" else (Fraction(1), Fraction(0))
        if not isz(a):
            return one if a > 0 else (-one if a < 0 else zero)
        return z3.If(a > 0, self.z(one, k), z3.If(a < 0, self.z(-one, k), self.z(zero, k)))

    def floor(self, a):
        if not isz(a):
            return Fraction(math.floor(a))
        return z3.ToReal(z3.ToInt(a))

    def ceil(self, a):
        if not isz(a):
            return Fraction(math.ceil(a))
        return -z3.ToReal(z3.ToInt(-a))

    def round_half_even(self, a):
        if not isz(a):
            return Fraction(round(a))
        raise NotImplementedError("round on symbolic real")

    def ipow(self, a, y, k):
        if y == 0:
            return 1 if k == "i" else Fraction(1)
        if y < 0:
            return self.div(self.const(1, k), self.ipow(a, -y, k), k)
        r = a
        for _ in range(y - 1):
            r = self.mul(r, a, k)
        return r

    def unary_uf(self, name, a):
        if is_nan_sym(a):
            return NAN
        if not isz(a):
            a = z3.RealVal(a)
        return uf(name)(a)

    def binary_uf(self, name, a, b):
        return uf(name, 2)(self.zf(a), self.zf(b))

    def is_finite(self, a):
        if not isz(a):
            return abs(a) < BIG
        return True  # reals are finite; NaN symbols are unconstrained reals

    def isnan_ne(self, a):
        return False

    # boolean --------------------------------------------------------------------------------------
    def and_(self, a, b):
        if not isz(a):
            return b if a else False
        if not isz(b):
            return a if b else False
        return z3.And(a, b)

    def or_(self, a, b):
        if not isz(a):
            return True if a else b
        if not isz(b):
            return True if b else a
        return z3.Or(a, b)

    def not_(self, a):
        if not isz(a):
            return not a
        return z3.Not(a)

    def xor(self, a, b):
        if not isz(a) and not isz(b):
            return a != b
        return z3.Xor(self.z(a), self.z(b))

    def ite(self, c, a, b, k=None):
        if not isz(c):
            return a if c else b
        if a is b:
            return a
        if isz(a) and isz(b) and a.eq(b):
            return a
        if not isz(a) and not isz(b) and a == b and type(a) is type(b):
            return a
        if k is None:
            k = self.kind_of_val(a) if isz(a) else self.kind_of_val(b) if isz(b) else self.kind_of_val(a)
        return z3.If(c, self.z(a, k), self.z(b, k))

    def kind_of_val(self, x):
        if isz(x):
            s = x.sort()
            if s == z3.BoolSort():
                return "b"
            if s == z3.IntSort():
                return "i"
            if s == z3.RealSort():
                return "f"
            if s == Key:
                return "k"
            if isinstance(x, z3.FPRef):
                return "f"
            raise TypeError(s)
        if isinstance(x, bool):
            return "b"
        if isinstance(x, int):
            return "i"
        return "f"

    # conversions ----------------------------------------------------------------------------------
    def convert(self, a, kfrom, kto):
        if kfrom == kto:
            return a
        if kfrom == "b":
            one, zero = (1, 0) if kto == "i" else (Fraction(1), Fraction(0))
            return self.ite(a, one, zero, kto)
        if kfrom == "i" and kto == "f":
            return Fraction(a) if not isz(a) else z3.ToReal(a)
        if kfrom == "f" and kto == "i":
            if not isz(a):
                return int(a)  # truncation toward zero
            return z3.If(a >= 0, z3.ToInt(a), -z3.ToInt(-a))
        if kto == "b":
            return self.cmp("ne", a, 0 if kfrom == "i" else Fraction(0), kfrom)
        raise NotImplementedError((kfrom, kto))


# ---------------------------------------------------------------------------------------------------
class SA:
    """Symbolic array: object ndarray of scalars + the jax dtype it stands for."""

    __slots__ = ("v", "dtype")

    def __init__(self, v, dtype):
        if not isinstance(v, np.ndarray) or v.dtype != object:
            a = np.empty(np.shape(v), dtype=object)
            if a.shape == ():
                a[()] = v
            else:
                a[...] = v
            v = a
        self.v = v
        self.dtype = dtype

    @property
    def shape(self):
        return self.v.shape

    @property
    def kind(self):
        return kind_of(self.dtype)

    def __repr__(self):
        return f"SA({self.dtype}{list(self.shape)})"

    def item(self):
        assert self.v.size == 1
        return self.v.reshape(-1)[0]

    def flat(self):
        return list(self.v.reshape(-1))

    def __getitem__(self, idx):
        r = self.v[idx]
        if not isinstance(r, np.ndarray):
            a = np.empty((), dtype=object)
            a[()] = r
            r = a
        return SA(r, self.dtype)


def obj_array(shape, fill=None):
    a = np.empty(shape, dtype=object)
    if fill is not None:
        a.fill(fill)
    return a


def map1(f, a: np.ndarray):
    out = np.empty(a.shape, dtype=object)
    fo, fa = out.reshape(-1), a.reshape(-1)
    for i in range(fa.size):
        fo[i] = f(fa[i])
    return out.reshape(a.shape) if a.shape != () else out


def map2(f, a: np.ndarray, b: np.ndarray):
    if a.shape != b.shape:
        a, b = np.broadcast_arrays(a, b)
    out = np.empty(a.shape, dtype=object)
    fo, fa, fb = out.reshape(-1), a.reshape(-1), b.reshape(-1)
    for i in range(fa.size):
        fo[i] = f(fa[i], fb[i])
    return out


def map3(f, a, b, c):
    a, b, c = np.broadcast_arrays(a, b, c)
    out = np.empty(a.shape, dtype=object)
    fo, fa, fb, fc = out.reshape(-1), a.reshape(-1), b.reshape(-1), c.reshape(-1)
    for i in range(fa.size):
        fo[i] = f(fa[i], fb[i], fc[i])
    return out


class Unsupported(NotImplementedError):
    pass


# ---------------------------------------------------------------------------------------------------
class Interp:
    def __init__(self, alg=None, while_bound=8, callback_handler=None, name_handlers=None):
        self.alg = alg or RealAlg()
        self.while_bound = while_bound
        self.callback_handler = callback_handler
        self.name_handlers = name_handlers or {}  # pjit name -> handler(interp, eqn, invals) -> outvals or None
        self.guards = []  # stack of z3/py bools: enclosing cond predicates
        self.unwind_obligations = []  # list of z3 bools that must be valid (loop exits within bound)
        self.side_constraints = []  # constraints introduced by the model (e.g. fresh symbol ranges)
        self.n_eqns = 0
        self.prims_seen = set()

    # -- helpers -----------------------------------------------------------------------------------
    def guard(self):
        g = True
        for x in self.guards:
            g = self.alg.and_(g, x)
        return g

    def from_concrete(self, x, dtype=None):
        """numpy/jax array (or scalar) -> SA of exact python values."""
        import jax

        if hasattr(x, "dtype") and _is_key_dtype(x.dtype):
            data = np.asarray(jax.random.key_data(x))
            out = obj_array(data.shape[:-1])
            for idx in np.ndindex(*data.shape[:-1]):
                out[idx] = Key.mk(int(data[idx + (0,)]), int(data[idx + (1,)]))
            return SA(out, x.dtype)
        arr = np.asarray(x)
        dtype = dtype or arr.dtype
        if not _is_key_dtype(dtype) and arr.dtype != np.dtype(dtype) and arr.dtype.kind in "fiub":
            arr = arr.astype(dtype)  # a weak-typed python literal takes the value it has in the array's dtype (float32(1/3) != 1/3)
        k = kind_of(dtype)
        out = obj_array(arr.shape)
        fo, fa = out.reshape(-1), arr.reshape(-1)
        for i in range(fa.size):
            fo[i] = self.alg.const(fa[i].item(), k)
        return SA(out, np.dtype(dtype))

    def sym_like(self, prefix, aval_or_array):
        shape, dtype = tuple(aval_or_array.shape), aval_or_array.dtype
        k = kind_of(dtype)
        out = obj_array(shape)
        for idx in np.ndindex(*shape):
            nm = prefix + ("" if not idx else "_" + "_".join(map(str, idx)))
            out[idx] = self.alg.sym(nm, k)
        return SA(out, dtype)

    # -- evaluation --------------------------------------------------------------------------------
    def eval_closed(self, closed, args):
        consts = [self.from_concrete(c) if not isinstance(c, SA) else c for c in closed.consts]
        return self.eval_jaxpr(closed.jaxpr, consts, args)

    def eval_jaxpr(self, jaxpr, consts, args):
        from jax.extend.core import Literal

        env = {}

        def read(v):
            if isinstance(v, Literal):
                return self.from_concrete(np.asarray(v.val), v.aval.dtype)
            return env[v]

        assert len(jaxpr.constvars) == len(consts), (len(jaxpr.constvars), len(consts))
        assert len(jaxpr.invars) == len(args), (len(jaxpr.invars), len(args))
        for v, c in zip(jaxpr.constvars, consts):
            env[v] = c
        for v, a in zip(jaxpr.invars, args):
            assert isinstance(a, SA), type(a)
            assert tuple(a.shape) == tuple(v.aval.shape), (a.shape, v.aval)
            env[v] = a
        for eqn in jaxpr.eqns:
            self.n_eqns += 1
            invals = [read(v) for v in eqn.invars]
            name = eqn.primitive.name
            self.prims_seen.add(name)
            fn = getattr(self, "p_" + name.replace("-", "_"), None)
            if fn is None:
                raise Unsupported(f"primitive '{name}' not modelled")
            outs = fn(eqn, *invals)
            if not isinstance(outs, (list, tuple)):
                outs = [outs]
            assert len(outs) == len(eqn.outvars), (name, len(outs), len(eqn.outvars))
            for v, o in zip(eqn.outvars, outs):
                if type(v).__name__ == "DropVar":
                    continue
                if not isinstance(o, SA):
                    o = SA(o, v.aval.dtype)
                else:
                    o = SA(o.v, v.aval.dtype)
                if tuple(o.shape) != tuple(v.aval.shape):
                    raise AssertionError(f"{name}: shape {o.shape} != aval {v.aval.shape}")
                env[v] = o
        return [read(v) for v in jaxpr.outvars]

    # -- elementwise -------------------------------------------------------------------------------
    def _bin(self, op, a, b):
        k = a.kind
        f = getattr(self.alg, op)
        return SA(map2(lambda x, y: f(x, y, k), a.v, b.v), a.dtype)

    def p_add(self, e, a, b):
        return self._bin("add", a, b)

    p_add_any = p_add

    def p_sub(self, e, a, b):
        return self._bin("sub", a, b)

    def p_mul(self, e, a, b):
        if a.kind == "b":
            return SA(map2(self.alg.and_, a.v, b.v), a.dtype)
        return self._bin("mul", a, b)

    def p_div(self, e, a, b):
        return self._bin("div", a, b)

    def p_rem(self, e, a, b):
        return self._bin("rem", a, b)

    def p_max(self, e, a, b):
        return self._bin("max", a, b)

    def p_min(self, e, a, b):
        return self._bin("min", a, b)

    def p_neg(self, e, a):
        k = a.kind
        return SA(map1(lambda x: self.alg.neg(x, k), a.v), a.dtype)

    def p_abs(self, e, a):
        k = a.kind
        return SA(map1(lambda x: self.alg.abs(x, k), a.v), a.dtype)

    def p_sign(self, e, a):
        k = a.kind
        return SA(map1(lambda x: self.alg.sign(x, k), a.v), a.dtype)

    def p_floor(self, e, a):
        return SA(map1(self.alg.floor, a.v), a.dtype)

    def p_ceil(self, e, a):
        return SA(map1(self.alg.ceil, a.v), a.dtype)

    def p_round(self, e, a):
        return SA(map1(self.alg.round_half_even, a.v), a.dtype)

    def p_square(self, e, a):
        k = a.kind
        return SA(map1(lambda x: self.alg.mul(x, x, k), a.v), a.dtype)

    def p_integer_pow(self, e, a):
        k, y = a.kind, e.params["y"]
        return SA(map1(lambda x: self.alg.ipow(x, y, k), a.v), a.dtype)

    def _cmp(self, op, a, b):
        k = a.kind
        if k == "b":
            if op == "eq":
                return SA(map2(lambda x, y: self.alg.not_(self.alg.xor(x, y)), a.v, b.v), np.bool_)
            if op == "ne":
                return SA(map2(self.alg.xor, a.v, b.v), np.bool_)
        if k == "k":
            assert op in ("eq", "ne")
            return SA(map2(lambda x, y: (x == y) if op == "eq" else (x != y), a.v, b.v), np.bool_)
        return SA(map2(lambda x, y: self.alg.cmp(op, x, y, k), a.v, b.v), np.bool_)

    def p_lt(self, e, a, b):
        return self._cmp("lt", a, b)

    def p_le(self, e, a, b):
        return self._cmp("le", a, b)

    def p_gt(self, e, a, b):
        return self._cmp("gt", a, b)

    def p_ge(self, e, a, b):
        return self._cmp("ge", a, b)

    def p_eq(self, e, a, b):
        return self._cmp("eq", a, b)

    def p_lt_to(self, e, a, b):  # total-order comparison (differs from lt only on NaN / signed zero)
        return self._cmp("lt", a, b)

    def p_le_to(self, e, a, b):
        return self._cmp("le", a, b)

    def p_ne(self, e, a, b):
        return self._cmp("ne", a, b)

    def p_and(self, e, a, b):
        if a.kind == "b":
            return SA(map2(self.alg.and_, a.v, b.v), a.dtype)
        return SA(map2(lambda x, y: self._int_bitop("and", x, y), a.v, b.v), a.dtype)

    def p_or(self, e, a, b):
        if a.kind == "b":
            return SA(map2(self.alg.or_, a.v, b.v), a.dtype)
        return SA(map2(lambda x, y: self._int_bitop("or", x, y), a.v, b.v), a.dtype)

    def p_xor(self, e, a, b):
        if a.kind == "b":
            return SA(map2(self.alg.xor, a.v, b.v), a.dtype)
        return SA(map2(lambda x, y: self._int_bitop("xor", x, y), a.v, b.v), a.dtype)

    def p_not(self, e, a):
        if a.kind == "b":
            return SA(map1(self.alg.not_, a.v), a.dtype)
        return SA(map1(lambda x: self._int_bitop("not", x, 0), a.v), a.dtype)

    def _int_bitop(self, op, x, y):
        if isz(x) or isz(y):
            raise Unsupported(f"bitwise {op} on symbolic integers")
        return {"and": x & y, "or": x | y, "xor": x ^ y, "not": ~x}[op]

    def p_shift_right_logical(self, e, a, b):
        def f(x, y):
            if isz(x) or isz(y):
                raise Unsupported("shift on symbolic integers")
            bits = np.dtype(a.dtype).itemsize * 8
            return (x % (1 << bits)) >> y

        return SA(map2(f, a.v, b.v), a.dtype)

    def p_shift_left(self, e, a, b):
        def f(x, y):
            if isz(x) or isz(y):
                raise Unsupported("shift on symbolic integers")
            bits = np.dtype(a.dtype).itemsize * 8
            return (x << y) % (1 << bits)

        return SA(map2(f, a.v, b.v), a.dtype)

    def p_select_n(self, e, pred, *cases):
        if pred.kind == "b":
            assert len(cases) == 2
            k = cases[0].kind
            return SA(map3(lambda c, x, y: self.alg.ite(c, y, x, k), pred.v, cases[0].v, cases[1].v), cases[0].dtype)
        k = cases[0].kind

        def f(idx, *cs):
            r = cs[-1]
            for j in range(len(cs) - 2, -1, -1):
                r = self.alg.ite(self.alg.cmp("eq", idx, j, "i"), cs[j], r, k)
            return r

        arrs = np.broadcast_arrays(pred.v, *[c.v for c in cases])
        out = obj_array(arrs[0].shape)
        for idx in np.ndindex(*arrs[0].shape):
            out[idx] = f(*[a[idx] for a in arrs])
        return SA(out, cases[0].dtype)

    def p_clamp(self, e, lo, x, hi):
        k = x.kind
        return SA(map3(lambda l, v, h: self.alg.min(self.alg.max(v, l, k), h, k), lo.v, x.v, hi.v), x.dtype)

    def p_convert_element_type(self, e, a):
        new = e.params["new_dtype"]
        kf, kt = a.kind, kind_of(new)
        out = map1(lambda x: self.alg.convert(x, kf, kt), a.v)
        if getattr(self, "model_narrowing", False):
            try:
                narrowing = np.issubdtype(np.dtype(new), np.floating) and np.issubdtype(np.dtype(a.dtype), np.floating) and np.dtype(new).itemsize < np.dtype(a.dtype).itemsize
            except TypeError:  # bfloat16 & co: compare by name
                narrowing = str(new) in ("bfloat16", "float16") and str(a.dtype) in ("float32", "float64")
            if narrowing:  # rounding to a narrower float format = an arbitrary (uninterpreted) function of the value: nothing about the result's magnitude is kept
                out = map1(lambda x: self.alg.unary_uf(f"round_to_{np.dtype(new).name}", x), out)
        if kt == "i" and kf == "i":
            pass  # width changes are not modelled (mathematical integers)
        return SA(out, new)

    def p_stop_gradient(self, e, a):
        return a

    def p_copy(self, e, a):
        return a

    p_copy_p = p_copy
    p_device_put = lambda self, e, *a: list(a)
    p_optimization_barrier = lambda self, e, *a: list(a)

    def p_is_finite(self, e, a):
        return SA(map1(self.alg.is_finite, a.v), np.bool_)

    def _uf1(name):
        def f(self, e, a):
            return SA(map1(lambda x: self.alg.unary_uf(name, x), a.v), a.dtype)

        return f

    p_exp = _uf1("exp")
    p_exp2 = _uf1("exp2")
    p_log = _uf1("log")
    p_log1p = _uf1("log1p")
    p_expm1 = _uf1("expm1")
    p_tanh = _uf1("tanh")
    p_logistic = _uf1("logistic")
    p_erf = _uf1("erf")
    p_erfc = _uf1("erfc")
    p_erf_inv = _uf1("erf_inv")
    p_sqrt = _uf1("sqrt")
    p_rsqrt = _uf1("rsqrt")
    p_sin = _uf1("sin")
    p_cos = _uf1("cos")
    p_tan = _uf1("tan")
    p_atanh = _uf1("atanh")
    p_asinh = _uf1("asinh")
    p_acosh = _uf1("acosh")
    p_sinh = _uf1("sinh")
    p_cosh = _uf1("cosh")
    p_lgamma = _uf1("lgamma")
    p_digamma = _uf1("digamma")
    p_cbrt = _uf1("cbrt")

    def p_pow(self, e, a, b):
        return SA(map2(lambda x, y: self.alg.binary_uf("pow", x, y), a.v, b.v), a.dtype)

    def p_atan2(self, e, a, b):
        return SA(map2(lambda x, y: self.alg.binary_uf("atan2", x, y), a.v, b.v), a.dtype)

    def p_nextafter(self, e, a, b):
        raise Unsupported("nextafter")

    # -- structural --------------------------------------------------------------------------------
    def p_broadcast_in_dim(self, e, a, *dyn):
        shape, bdims = e.params["shape"], e.params["broadcast_dimensions"]
        tmp = [1] * len(shape)
        for i, d in enumerate(bdims):
            tmp[d] = a.shape[i]
        return SA(np.broadcast_to(a.v.reshape(tmp), shape).copy(), a.dtype)

    def p_reshape(self, e, a, *dyn):
        assert e.params.get("dimensions") is None
        return SA(a.v.reshape(e.params["new_sizes"]), a.dtype)

    def p_squeeze(self, e, a):
        return SA(np.squeeze(a.v, axis=tuple(e.params["dimensions"])), a.dtype)

    def p_expand_dims(self, e, a):
        return SA(np.expand_dims(a.v, tuple(e.params["dimensions"])), a.dtype)

    def p_transpose(self, e, a):
        return SA(np.transpose(a.v, e.params["permutation"]), a.dtype)

    def p_concatenate(self, e, *arrs):
        return SA(np.concatenate([a.v for a in arrs], axis=e.params["dimension"]), arrs[0].dtype)

    def p_slice(self, e, a):
        st, li, sr = e.params["start_indices"], e.params["limit_indices"], e.params["strides"]
        sr = sr or [1] * len(st)
        return SA(a.v[tuple(slice(s, l, r) for s, l, r in zip(st, li, sr))], a.dtype)

    def p_rev(self, e, a):
        return SA(np.flip(a.v, axis=tuple(e.params["dimensions"])), a.dtype)

    def p_iota(self, e, *dyn):
        shape, dim, dtype = e.params["shape"], e.params["dimension"], e.params["dtype"]
        k = kind_of(dtype)
        out = obj_array(shape)
        for idx in np.ndindex(*shape):
            out[idx] = self.alg.const(idx[dim], k)
        return SA(out, dtype)

    def p_pad(self, e, a, padv):
        cfg = e.params["padding_config"]
        pv = padv.item()
        shape = []
        for n, (lo, hi, interior) in zip(a.shape, cfg):
            shape.append(lo + hi + n + max(n - 1, 0) * interior)
        out = obj_array(shape, None)
        out.fill(pv)
        for idx in np.ndindex(*a.shape):
            tgt = tuple(lo + i * (interior + 1) for i, (lo, hi, interior) in zip(idx, cfg))
            if all(0 <= t < s for t, s in zip(tgt, shape)):
                out[tgt] = a.v[idx]
        return SA(out, a.dtype)

    def p_split(self, e, a):
        sizes, axis = e.params["sizes"], e.params["axis"]
        outs, pos = [], 0
        for s in sizes:
            sl = [slice(None)] * a.v.ndim
            sl[axis] = slice(pos, pos + s)
            outs.append(SA(a.v[tuple(sl)], a.dtype))
            pos += s
        return outs

    # -- reductions --------------------------------------------------------------------------------
    def _reduce(self, a, axes, f, init):
        axes = tuple(sorted(axes))
        v = np.moveaxis(a.v, axes, tuple(range(len(axes))))
        red_shape, out_shape = v.shape[: len(axes)], v.shape[len(axes):]
        out = obj_array(out_shape)
        for oidx in np.ndindex(*out_shape):
            acc = init
            for ridx in np.ndindex(*red_shape):
                x = v[ridx + oidx]
                acc = x if acc is None else f(acc, x)
            out[oidx] = acc
        return out

    def p_reduce_sum(self, e, a):
        k = a.kind
        return SA(self._reduce(a, e.params["axes"], lambda x, y: self.alg.add(x, y, k), self.alg.const(0, k)), a.dtype)

    def p_reduce_prod(self, e, a):
        k = a.kind
        return SA(self._reduce(a, e.params["axes"], lambda x, y: self.alg.mul(x, y, k), self.alg.const(1, k)), a.dtype)

    def p_reduce_max(self, e, a):
        k = a.kind
        return SA(self._reduce(a, e.params["axes"], lambda x, y: self.alg.max(x, y, k), None), a.dtype)

    def p_reduce_min(self, e, a):
        k = a.kind
        return SA(self._reduce(a, e.params["axes"], lambda x, y: self.alg.min(x, y, k), None), a.dtype)

    def p_reduce_and(self, e, a):
        return SA(self._reduce(a, e.params["axes"], self.alg.and_, True), a.dtype)

    def p_reduce_or(self, e, a):
        return SA(self._reduce(a, e.params["axes"], self.alg.or_, False), a.dtype)

    def _arg(self, e, a, better):
        axis = e.params["axes"][0]
        idt = e.params["index_dtype"]
        k = a.kind
        v = np.moveaxis(a.v, axis, 0)
        out = obj_array(v.shape[1:])
        for oidx in np.ndindex(*v.shape[1:]):
            best, bi = v[(0,) + oidx], 0
            for j in range(1, v.shape[0]):
                x = v[(j,) + oidx]
                c = better(x, best, k)  # strictly better -> first occurrence wins on ties
                best = self.alg.ite(c, x, best, k)
                bi = self.alg.ite(c, j, bi, "i")
            out[oidx] = bi
        return SA(out, idt)

    def p_argmax(self, e, a):
        return self._arg(e, a, lambda x, b, k: self.alg.cmp("gt", x, b, k))

    def p_argmin(self, e, a):
        return self._arg(e, a, lambda x, b, k: self.alg.cmp("lt", x, b, k))

    def _cum(self, e, a, f):
        axis, rev = e.params["axis"], e.params.get("reverse", False)
        v = np.moveaxis(a.v, axis, 0)
        out = obj_array(v.shape)
        n = v.shape[0]
        order = range(n - 1, -1, -1) if rev else range(n)
        for oidx in np.ndindex(*v.shape[1:]):
            acc = None
            for j in order:
                x = v[(j,) + oidx]
                acc = x if acc is None else f(acc, x)
                out[(j,) + oidx] = acc
        return SA(np.moveaxis(out, 0, axis), a.dtype)

    def p_cumsum(self, e, a):
        k = a.kind
        return self._cum(e, a, lambda x, y: self.alg.add(x, y, k))

    def p_cummax(self, e, a):
        k = a.kind
        return self._cum(e, a, lambda x, y: self.alg.max(x, y, k))

    def p_cummin(self, e, a):
        k = a.kind
        return self._cum(e, a, lambda x, y: self.alg.min(x, y, k))

    def p_cumprod(self, e, a):
        k = a.kind
        return self._cum(e, a, lambda x, y: self.alg.mul(x, y, k))

    def p_dot_general(self, e, a, b):
        (lc, rc), (lb, rb) = e.params["dimension_numbers"]
        k = a.kind
        la = [d for d in range(a.v.ndim) if d not in lc and d not in lb]
        ra = [d for d in range(b.v.ndim) if d not in rc and d not in rb]
        av = np.transpose(a.v, list(lb) + la + list(lc))
        bv = np.transpose(b.v, list(rb) + ra + list(rc))
        bshape = av.shape[: len(lb)]
        lshape = av.shape[len(lb): len(lb) + len(la)]
        rshape = bv.shape[len(rb): len(rb) + len(ra)]
        cshape = av.shape[len(lb) + len(la):]
        out = obj_array(bshape + lshape + rshape)
        for bi in np.ndindex(*bshape):
            for li in np.ndindex(*lshape):
                for ri in np.ndindex(*rshape):
                    acc = self.alg.const(0, k)
                    for ci in np.ndindex(*cshape):
                        acc = self.alg.add(acc, self.alg.mul(av[bi + li + ci], bv[bi + ri + ci], k), k)
                    out[bi + li + ri] = acc
        pt = e.params.get("preferred_element_type")
        return SA(out, pt or a.dtype)

    # -- symbolic indexing -------------------------------------------------------------------------
    def _clamp_idx(self, i, lo, hi):
        """clamp index term to [lo, hi] (concrete bounds)."""
        if not isz(i):
            return min(max(i, lo), hi)
        if lo == hi:
            return lo
        return z3.If(i < lo, lo, z3.If(i > hi, hi, i))

    def _index_chain(self, idx, lo, hi, getter, k):
        """value = getter(j) for the j in [lo,hi] with idx == j (idx assumed within range after clamping)."""
        if not isz(idx):
            return getter(idx)
        r = getter(hi)
        for j in range(hi - 1, lo - 1, -1):
            r = self.alg.ite(idx == j, getter(j), r, k)
        return r

    def p_dynamic_slice(self, e, a, *starts):
        sizes = e.params["slice_sizes"]
        starts = [s.item() for s in starts]
        k = a.kind
        cl = [self._clamp_idx(s, 0, n - sz) for s, n, sz in zip(starts, a.shape, sizes)]
        out = obj_array(sizes)
        sym_dims = [d for d, s in enumerate(cl) if isz(s)]
        for oidx in np.ndindex(*sizes):
            def rec(dpos, base):
                if dpos == len(sym_dims):
                    return a.v[tuple(base)]
                d = sym_dims[dpos]
                hi = a.shape[d] - sizes[d]

                def getter(j):
                    b2 = list(base)
                    b2[d] = j + oidx[d]
                    return rec(dpos + 1, b2)

                return self._index_chain(cl[d], 0, hi, getter, k)

            base = [(cl[d] + oidx[d]) if not isz(cl[d]) else None for d in range(len(sizes))]
            out[oidx] = rec(0, base)
        return SA(out, a.dtype)

    def p_dynamic_update_slice(self, e, a, upd, *starts):
        starts = [s.item() for s in starts]
        k = a.kind
        cl = [self._clamp_idx(s, 0, n - u) for s, n, u in zip(starts, a.shape, upd.shape)]
        out = obj_array(a.shape)
        for idx in np.ndindex(*a.shape):
            # cell idx is updated iff for all d: cl[d] <= idx[d] < cl[d]+upd.shape[d]
            val = a.v[idx]
            # enumerate offsets inside update
            new = val
            cands = []
            for d in range(len(idx)):
                if isz(cl[d]):
                    lo = max(0, idx[d] - upd.shape[d] + 1)
                    hi = min(idx[d], a.shape[d] - upd.shape[d])
                    cands.append([(s, cl[d] == s) for s in range(lo, hi + 1)])
                else:
                    s = cl[d]
                    cands.append([(s, True)] if s <= idx[d] < s + upd.shape[d] else [])
            for combo in itertools.product(*cands):
                cond = True
                for (_, c) in combo:
                    cond = self.alg.and_(cond, c)
                uidx = tuple(idx[d] - combo[d][0] for d in range(len(idx)))
                new = self.alg.ite(cond, upd.v[uidx], new, k)
            out[idx] = new
        return SA(out, a.dtype)

    def _mode(self, e):
        m = str(e.params.get("mode"))
        if "CLIP" in m or "clip" in m:
            return "clip"
        if "FILL" in m or "fill" in m:
            return "fill"
        if "PROMISE" in m or "promise" in m:
            return "clip"  # XLA:CPU clamps; documented in DESIGN
        if "ONE_HOT" in m:
            return "fill"
        raise Unsupported(f"gather/scatter mode {m}")

    def p_gather(self, e, operand, indices):
        dn = e.params["dimension_numbers"]
        slice_sizes = e.params["slice_sizes"]
        mode = self._mode(e)
        k = operand.kind
        offset_dims = tuple(dn.offset_dims)
        collapsed = tuple(dn.collapsed_slice_dims)
        sim = tuple(dn.start_index_map)
        obd = tuple(getattr(dn, "operand_batching_dims", ()))
        sibd = tuple(getattr(dn, "start_indices_batching_dims", ()))
        batch_shape = indices.shape[:-1]
        op_offset_dims = [d for d in range(operand.v.ndim) if d not in collapsed and d not in obd]
        offset_shape = [slice_sizes[d] for d in op_offset_dims]
        out_rank = len(batch_shape) + len(offset_shape)
        out_shape = []
        bi, oi = iter(batch_shape), iter(offset_shape)
        for d in range(out_rank):
            out_shape.append(next(oi) if d in offset_dims else next(bi))
        out = obj_array(out_shape)
        fill = None
        if mode == "fill":
            fv = e.params.get("fill_value")
        for oidx in np.ndindex(*out_shape):
            bidx = tuple(oidx[d] for d in range(out_rank) if d not in offset_dims)
            off = [oidx[d] for d in offset_dims]
            start = [0] * operand.v.ndim
            for kk, d in enumerate(sim):
                start[d] = indices.v[bidx + (kk,)]
            for i, d in enumerate(obd):
                start[d] = bidx[sibd[i]]
            oob = False
            for d in range(operand.v.ndim):
                lim = operand.shape[d] - slice_sizes[d]
                s = start[d]
                if mode == "fill":
                    c = self.alg.or_(self.alg.cmp("lt", s, 0, "i"), self.alg.cmp("gt", s, lim, "i"))
                    oob = self.alg.or_(oob, c)
                start[d] = self._clamp_idx(s, 0, lim)
            full_off = [0] * operand.v.ndim
            for i, d in enumerate(op_offset_dims):
                full_off[d] = off[i]
            sym_dims = [d for d in range(operand.v.ndim) if isz(start[d])]

            def rec(dpos, base):
                if dpos == len(sym_dims):
                    return operand.v[tuple(base)]
                d = sym_dims[dpos]

                def getter(j):
                    b2 = list(base)
                    b2[d] = j + full_off[d]
                    return rec(dpos + 1, b2)

                return self._index_chain(start[d], 0, operand.shape[d] - slice_sizes[d], getter, k)

            base = [(start[d] + full_off[d]) if not isz(start[d]) else None for d in range(operand.v.ndim)]
            val = rec(0, base)
            if mode == "fill" and oob is not False:
                val = self.alg.ite(oob, self._fill_value(e, operand.dtype), val, k)
            out[oidx] = val
        return SA(out, operand.dtype)

    def _fill_value(self, e, dtype):
        fv = e.params.get("fill_value")
        k = kind_of(dtype)
        if fv is not None:
            return self.alg.const(fv, k)
        if k == "f":
            return self.alg.const(float("nan"), "f")
        if k == "i":
            if np.issubdtype(dtype, np.signedinteger):
                return int(np.iinfo(dtype).min)
            return int(np.iinfo(dtype).max)
        if k == "b":
            return True
        raise Unsupported("fill value for key arrays")

    def _scatter(self, e, operand, indices, updates, combine):
        dn = e.params["dimension_numbers"]
        mode = self._mode(e)
        k = operand.kind
        uwd = tuple(dn.update_window_dims)
        iwd = tuple(dn.inserted_window_dims)
        sdod = tuple(dn.scatter_dims_to_operand_dims)
        obd = tuple(getattr(dn, "operand_batching_dims", ()))
        sibd = tuple(getattr(dn, "scatter_indices_batching_dims", ()))
        op_window_dims = [d for d in range(operand.v.ndim) if d not in iwd and d not in obd]
        window_shape = [updates.shape[d] for d in uwd]
        cur = operand.v.copy()
        upd_rank = updates.v.ndim
        scatter_dims = [d for d in range(upd_rank) if d not in uwd]
        for uidx in np.ndindex(*updates.shape):
            sidx = tuple(uidx[d] for d in scatter_dims)
            widx = [uidx[d] for d in uwd]
            start = [0] * operand.v.ndim
            for kk, d in enumerate(sdod):
                start[d] = indices.v[sidx + (kk,)]
            for i, d in enumerate(obd):
                start[d] = sidx[sibd[i]]
            full_w = [0] * operand.v.ndim
            for i, d in enumerate(op_window_dims):
                full_w[d] = widx[i]
            # window extent per operand dim
            wext = [1] * operand.v.ndim
            for i, d in enumerate(op_window_dims):
                wext[d] = window_shape[i]
            inb = True
            for d in range(operand.v.ndim):
                lim = operand.shape[d] - wext[d]
                s = start[d]
                if mode == "clip":
                    start[d] = self._clamp_idx(s, 0, lim)
                else:
                    c = self.alg.and_(self.alg.cmp("ge", s, 0, "i"), self.alg.cmp("le", s, lim, "i"))
                    inb = self.alg.and_(inb, c)
            if inb is False:
                continue
            u = updates.v[uidx]
            sym_dims = [d for d in range(operand.v.ndim) if isz(start[d])]
            if not sym_dims:
                tgt = tuple(start[d] + full_w[d] for d in range(operand.v.ndim))
                if all(0 <= t < n for t, n in zip(tgt, operand.shape)):
                    cur[tgt] = self.alg.ite(inb, combine(cur[tgt], u), cur[tgt], k)
                continue
            ranges = []
            for d in range(operand.v.ndim):
                if isz(start[d]):
                    ranges.append(range(0, operand.shape[d] - wext[d] + 1))
                else:
                    ranges.append([start[d]])
            for combo in itertools.product(*ranges):
                cond = inb
                for d in sym_dims:
                    cond = self.alg.and_(cond, start[d] == combo[d])
                tgt = tuple(combo[d] + full_w[d] for d in range(operand.v.ndim))
                if all(0 <= t < n for t, n in zip(tgt, operand.shape)):
                    cur[tgt] = self.alg.ite(cond, combine(cur[tgt], u), cur[tgt], k)
        return SA(cur, operand.dtype)

    def p_scatter(self, e, operand, indices, updates):
        return self._scatter(e, operand, indices, updates, lambda old, new: new)

    def p_scatter_add(self, e, operand, indices, updates):
        k = operand.kind
        return self._scatter(e, operand, indices, updates, lambda old, new: self.alg.add(old, new, k))

    def p_scatter_mul(self, e, operand, indices, updates):
        k = operand.kind
        return self._scatter(e, operand, indices, updates, lambda old, new: self.alg.mul(old, new, k))

    def p_scatter_max(self, e, operand, indices, updates):
        k = operand.kind
        return self._scatter(e, operand, indices, updates, lambda old, new: self.alg.max(old, new, k))

    def p_scatter_min(self, e, operand, indices, updates):
        k = operand.kind
        return self._scatter(e, operand, indices, updates, lambda old, new: self.alg.min(old, new, k))

    # -- sort --------------------------------------------------------------------------------------
    def _key_lt(self, xs, ys, kinds):
        """lexicographic strict less-than over key tuples; returns (lt, eq)."""
        lt, eq = False, True
        for x, y, k in zip(xs, ys, kinds):
            if k == "f" and hasattr(self.alg, "cmp_total_lt"):
                l = self.alg.cmp_total_lt(x, y)
                q = self.alg.and_(self.alg.not_(l), self.alg.not_(self.alg.cmp_total_lt(y, x)))
            else:
                l = self.alg.cmp("lt", x, y, k)
                q = self.alg.cmp("eq", x, y, k)
            lt = self.alg.or_(lt, self.alg.and_(eq, l))
            eq = self.alg.and_(eq, q)
        return lt, eq

    def p_sort(self, e, *ops):
        dim, nk = e.params["dimension"], e.params["num_keys"]
        kinds = [o.kind for o in ops]
        vs = [np.moveaxis(o.v, dim, 0) for o in ops]
        n = vs[0].shape[0]
        outs = [obj_array(v.shape) for v in vs]
        for oidx in np.ndindex(*vs[0].shape[1:]):
            cols = [[v[(j,) + oidx] for j in range(n)] for v in vs]
            if all(not isz(cols[t][j]) and not (isinstance(cols[t][j], (float, np.floating)) and math.isnan(cols[t][j]))
                   for t in range(nk) for j in range(n)):
                order = sorted(range(n), key=lambda j: tuple(cols[t][j] for t in range(nk)))
                for t in range(len(ops)):
                    for r, j in enumerate(order):
                        outs[t][(r,) + oidx] = cols[t][j]
                continue
            ranks = []
            for i in range(n):
                r = 0
                for j in range(n):
                    if i == j:
                        continue
                    lt, eq = self._key_lt([cols[t][j] for t in range(nk)], [cols[t][i] for t in range(nk)], kinds[:nk])
                    before = lt if j > i else self.alg.or_(lt, eq)  # stable: earlier index first on ties
                    r = self.alg.add(r, self.alg.ite(before, 1, 0, "i"), "i")
                ranks.append(r)
            for t in range(len(ops)):
                for pos in range(n):
                    val = cols[t][n - 1]
                    for i in range(n - 2, -1, -1):
                        val = self.alg.ite(self.alg.cmp("eq", ranks[i], pos, "i"), cols[t][i], val, kinds[t])
                    outs[t][(pos,) + oidx] = val
        return [SA(np.moveaxis(o, 0, dim), op.dtype) for o, op in zip(outs, ops)]

    # -- control flow ------------------------------------------------------------------------------
    def _closed(self, cj, args):
        return self.eval_closed(cj, args)

    def p_jit(self, e, *args):
        nm = e.params.get("name")
        h = self.name_handlers.get(nm)
        if h is not None:
            r = h(self, e, args)
            if r is not None:
                return r
        return self._closed(e.params["jaxpr"], list(args))

    p_pjit = p_jit
    p_closed_call = lambda self, e, *args: self._closed(e.params["call_jaxpr"], list(args))
    p_core_call = p_closed_call

    def p_remat(self, e, *args):
        import jax

        return self.eval_jaxpr(e.params["jaxpr"], [], list(args))

    p_checkpoint = p_remat

    def p_custom_jvp_call(self, e, *args):
        return self._closed(e.params["call_jaxpr"], list(args))

    def p_custom_vjp_call(self, e, *args):
        cj = e.params.get("call_jaxpr") or e.params.get("fun_jaxpr")
        return self._closed(cj, list(args))

    p_custom_vjp_call_jaxpr = p_custom_vjp_call

    def _merge(self, cond, a_list, b_list):
        out = []
        for a, b in zip(a_list, b_list):
            k = a.kind
            out.append(SA(map2(lambda x, y: self.alg.ite(cond, x, y, k), a.v, b.v), a.dtype))
        return out

    def p_cond(self, e, index, *args):
        branches = e.params["branches"]
        idx = index.item()
        if index.kind == "b":
            idx = self.alg.ite(idx, 1, 0, "i")
        if not isz(idx):
            i = min(max(int(idx), 0), len(branches) - 1)
            return self._closed(branches[i], list(args))
        results = []
        n = len(branches)
        for i, br in enumerate(branches):
            if i == 0:
                g = idx <= 0
            elif i == n - 1:
                g = idx >= n - 1
            else:
                g = idx == i
            self.guards.append(g)
            try:
                results.append((g, self._closed(br, list(args))))
            finally:
                self.guards.pop()
        acc = results[-1][1]
        for g, r in reversed(results[:-1]):
            acc = self._merge(g, r, acc)
        return acc

    def p_scan(self, e, *args):
        p = e.params
        nc, ncar, length, rev = p["num_consts"], p["num_carry"], p["length"], p["reverse"]
        cj = p["jaxpr"]
        consts, carry, xs = list(args[:nc]), list(args[nc:nc + ncar]), list(args[nc + ncar:])
        n_ys = len(cj.jaxpr.outvars) - ncar
        ys = [[None] * length for _ in range(n_ys)]
        order = range(length - 1, -1, -1) if rev else range(length)
        for t in order:
            xt = [x[t] for x in xs]
            outs = self.eval_closed(cj, consts + carry + xt)
            carry = outs[:ncar]
            for j in range(n_ys):
                ys[j][t] = outs[ncar + j]
        ys_out = []
        for j in range(n_ys):
            aval = cj.jaxpr.outvars[ncar + j].aval
            if length == 0:
                ys_out.append(SA(obj_array((0,) + tuple(aval.shape)), aval.dtype))
            else:
                ys_out.append(SA(np.stack([y.v for y in ys[j]], axis=0), aval.dtype))
        return carry + ys_out

    def p_while(self, e, *args):
        p = e.params
        cnc, bnc = p["cond_nconsts"], p["body_nconsts"]
        cj, bj = p["cond_jaxpr"], p["body_jaxpr"]
        cconsts, bconsts, state = list(args[:cnc]), list(args[cnc:cnc + bnc]), list(args[cnc + bnc:])
        it = 0
        while True:
            c = self.eval_closed(cj, cconsts + state)[0].item()
            if not isz(c):
                if not c:
                    return state
                state = self.eval_closed(bj, bconsts + state)
                it += 1
                if it > 10000:
                    raise Unsupported("concrete while loop exceeded 10000 iterations")
                continue
            # symbolic condition: bounded unrolling with unwinding obligation
            break
        for _ in range(self.while_bound):
            c = self.eval_closed(cj, cconsts + state)[0].item()
            if not isz(c):
                if not c:
                    return state
                state = self.eval_closed(bj, bconsts + state)
                continue
            self.guards.append(c)
            try:
                nxt = self.eval_closed(bj, bconsts + state)
            finally:
                self.guards.pop()
            state = self._merge(c, nxt, state)
        c = self.eval_closed(cj, cconsts + state)[0].item()
        g = self.guard()
        self.unwind_obligations.append(z3.Implies(self.alg.z(g), z3.Not(self.alg.z(c))) if isz(c) or isz(g) else
                                       z3.BoolVal(not (c and g)))
        return state

    # -- callbacks ---------------------------------------------------------------------------------
    def p_pure_callback(self, e, *args):
        if self.callback_handler is None:
            raise Unsupported("pure_callback without a handler")
        return self.callback_handler(self, e, args)

    p_io_callback = p_pure_callback

    def p_debug_callback(self, e, *args):
        return []

    # -- PRNG --------------------------------------------------------------------------------------
    def p_random_wrap(self, e, a):
        out = obj_array(a.shape[:-1])
        for idx in np.ndindex(*a.shape[:-1]):
            x0, x1 = a.v[idx + (0,)], a.v[idx + (1,)]
            if isz(x0) and isz(x1) and x0.decl().eq(Key.w0) and x1.decl().eq(Key.w1) and x0.arg(0).eq(x1.arg(0)):
                out[idx] = x0.arg(0)
            else:
                out[idx] = Key.mk(self.alg.z(x0, "i"), self.alg.z(x1, "i"))
        return SA(out, "key<fry>")

    def p_random_unwrap(self, e, a):
        out = obj_array(a.shape + (2,))
        for idx in np.ndindex(*a.shape):
            kx = a.v[idx]
            if kx.decl().eq(Key.mk):
                out[idx + (0,)], out[idx + (1,)] = kx.arg(0), kx.arg(1)
                for j in (0, 1):
                    x = out[idx + (j,)]
                    if z3.is_int_value(x):
                        out[idx + (j,)] = x.as_long()
            else:
                out[idx + (0,)], out[idx + (1,)] = Key.w0(kx), Key.w1(kx)
        return SA(out, np.uint32)

    def p_random_split(self, e, a):
        shape = tuple(e.params["shape"])
        out = obj_array(a.shape + shape)
        for idx in np.ndindex(*a.shape):
            for j, sidx in enumerate(np.ndindex(*shape)):
                out[idx + sidx] = f_split(a.v[idx], z3.IntVal(j))
        return SA(out, a.dtype)

    def p_random_fold_in(self, e, a, d):
        return SA(map2(lambda k_, x: f_fold(k_, self.alg.z(x, "i")), a.v, d.v), a.dtype)

    def p_random_bits(self, e, a):
        shape = tuple(e.params["shape"])
        out = obj_array(a.shape + shape)
        for idx in np.ndindex(*a.shape):
            for j, sidx in enumerate(np.ndindex(*shape)):
                out[idx + sidx] = f_bits(a.v[idx], z3.IntVal(j))
        return SA(out, np.uint32)

    def p_random_seed(self, e, a):
        return SA(map1(lambda s: Key.mk(0, self.alg.z(s, "i")), a.v), "key<fry>")


# ---------------------------------------------------------------------------------------------------
class Traced:
    """jaxpr of fn(*example_args) plus pytree plumbing."""

    def __init__(self, fn, *example_args, **kw):
        import jax

        self.fn = fn
        self.example_args = example_args
        self.closed, self.out_shape = jax.make_jaxpr(fn, return_shape=True, **kw)(*example_args)
        self.in_leaves, self.in_tree = jax.tree_util.tree_flatten(example_args)
        self.out_leaves, self.out_tree = jax.tree_util.tree_flatten(self.out_shape)
        self.n_eqns = count_eqns(self.closed.jaxpr)

    def in_avals(self):
        return [v.aval for v in self.closed.jaxpr.invars]

    def sym_inputs(self, interp, prefix="x", names=None):
        """fresh symbols for every input leaf; returns flat list of SA."""
        import jax

        paths = [jax.tree_util.keystr(p) for p, _ in jax.tree_util.tree_flatten_with_path(self.example_args)[0]]
        out = []
        for p, av in zip(paths, self.in_avals()):
            nm = prefix + _clean(p)
            out.append(interp.sym_like(nm, av))
        return out

    def concrete_inputs(self, interp, args=None):
        import jax

        leaves = jax.tree_util.tree_leaves(args if args is not None else self.example_args)
        return [interp.from_concrete(l, av.dtype) for l, av in zip(leaves, self.in_avals())]

    def in_pytree(self, flat):
        import jax

        return jax.tree_util.tree_unflatten(self.in_tree, flat)

    def run(self, interp, flat_inputs):
        import jax

        outs = interp.eval_closed(self.closed, list(flat_inputs))
        return jax.tree_util.tree_unflatten(self.out_tree, outs)

    def run_flat(self, interp, flat_inputs):
        return interp.eval_closed(self.closed, list(flat_inputs))


def _clean(p):
    return "".join(ch if ch.isalnum() else "_" for ch in p).strip("_").replace("__", "_")


def count_eqns(jaxpr):
    n = 0
    for e in jaxpr.eqns:
        n += 1
        for v in e.params.values():
            for sub in (v if isinstance(v, (list, tuple)) else [v]):
                if hasattr(sub, "jaxpr") and hasattr(sub.jaxpr, "eqns"):
                    n += count_eqns(sub.jaxpr)
                elif hasattr(sub, "eqns"):
                    n += count_eqns(sub)
    return n


def census(jaxpr, acc=None):
    acc = {} if acc is None else acc
    for e in jaxpr.eqns:
        acc[e.primitive.name] = acc.get(e.primitive.name, 0) + 1
        for v in e.params.values():
            for sub in (v if isinstance(v, (list, tuple)) else [v]):
                if hasattr(sub, "jaxpr") and hasattr(sub.jaxpr, "eqns"):
                    census(sub.jaxpr, acc)
                elif hasattr(sub, "eqns"):
                    census(sub, acc)
    return acc


# ---------------------------------------------------------------------------------------------------
# solver helpers
def to_float(x):
    if isinstance(x, bool):
        return x
    if isinstance(x, (int, Fraction, float)):
        return x
    if isinstance(x, z3.FPNumRef):
        if x.isNaN():
            return float("nan")
        if x.isInf():
            return float("-inf") if x.isNegative() else float("inf")
        r = z3.simplify(z3.fpToReal(x))
        v = float(Fraction(r.numerator_as_long(), r.denominator_as_long()))
        return -0.0 if (v == 0 and x.isNegative()) else v
    if z3.is_int_value(x):
        return x.as_long()
    if z3.is_rational_value(x):
        return Fraction(x.numerator_as_long(), x.denominator_as_long())
    if z3.is_algebraic_value(x):
        return float(x.approx(20).as_fraction())
    if z3.is_true(x):
        return True
    if z3.is_false(x):
        return False
    raise TypeError(f"not a value: {x}")


def model_value(m, x):
    if not isz(x):
        return x
    return to_float(m.eval(x, model_completion=True))


def model_array(m, sa: SA, np_dtype=None):
    out = np.empty(sa.shape, dtype=np_dtype or (np.dtype(sa.dtype) if not _is_key_dtype(sa.dtype) else object))
    for idx in np.ndindex(*sa.shape):
        v = model_value(m, sa.v[idx])
        out[idx] = float(v) if isinstance(v, Fraction) else v
    return out


def eq_terms(alg, a, b, k):
    """z3 Bool (or python bool) stating a == b."""
    if not isz(a) and not isz(b):
        return a == b
    if isz(a) and isz(b) and a.eq(b):
        return True
    if k == "b":
        return alg.z(a) == alg.z(b)
    return alg.z(a, k) == alg.z(b, k)


def sa_equal(alg, A: SA, B: SA):
    """conjunction (z3 Bool or python bool) of cellwise equality; shapes must agree."""
    assert tuple(A.shape) == tuple(B.shape), (A.shape, B.shape)
    k = A.kind
    conj = []
    for x, y in zip(A.flat(), B.flat()):
        c = eq_terms(alg, x, y, k)
        if c is True:
            continue
        if c is False:
            return False
        conj.append(c)
    if not conj:
        return True
    return z3.And(*conj) if len(conj) > 1 else conj[0]


def tree_equal(alg, ta, tb):
    import jax

    la, tda = jax.tree_util.tree_flatten(ta, is_leaf=lambda x: isinstance(x, SA))
    lb, tdb = jax.tree_util.tree_flatten(tb, is_leaf=lambda x: isinstance(x, SA))
    assert tda == tdb, f"tree structures differ:\n{tda}\n{tdb}"
    conj = []
    for a, b in zip(la, lb):
        c = sa_equal(alg, a, b)
        if c is True:
            continue
        if c is False:
            return False
        conj.append(c)
    if not conj:
        return True
    return z3.And(*conj) if len(conj) > 1 else conj[0]


# ---------------------------------------------------------------------------------------------------
class FPAlg(RealAlg):
    """'fp32' numeric model: float cells are z3 Float32 terms (RNE) or numpy.float32 when concrete. NaN / +-inf are first class.
    Integers and booleans as in RealAlg."""

    name = "fp32"
    F32 = z3.Float32()
    RM = z3.RNE()

    def _isfp(self, x):
        return isinstance(x, z3.FPRef)

    def const(self, v, kind):
        if kind == "f":
            return np.float32(v)
        return super().const(v, kind)

    def sym(self, name, kind):
        if kind == "f":
            return z3.FP(name, self.F32)
        return super().sym(name, kind)

    def z(self, x, kind=None):
        if isz(x):
            return x
        if kind == "f" or isinstance(x, (np.floating, float, Fraction)):
            v = float(x)
            if math.isnan(v):
                return z3.fpNaN(self.F32)
            if math.isinf(v):
                return z3.fpPlusInfinity(self.F32) if v > 0 else z3.fpMinusInfinity(self.F32)
            return z3.FPVal(v, self.F32)
        return super().z(x, kind)

    def zf(self, x):
        return self.z(x, "f")

    def _f2(self, a, b, zop, npop):
        if not isz(a) and not isz(b):
            with np.errstate(all="ignore"):
                return np.float32(npop(np.float32(a), np.float32(b)))
        return zop(self.RM, self.z(a, "f"), self.z(b, "f"))

    def add(self, a, b, k):
        if k != "f":
            return super().add(a, b, k)
        return self._f2(a, b, z3.fpAdd, np.add)

    def sub(self, a, b, k):
        if k != "f":
            return super().sub(a, b, k)
        return self._f2(a, b, z3.fpSub, np.subtract)

    def mul(self, a, b, k):
        if k != "f":
            return super().mul(a, b, k)
        return self._f2(a, b, z3.fpMul, np.multiply)

    def div(self, a, b, k):
        if k != "f":
            return super().div(a, b, k)
        return self._f2(a, b, z3.fpDiv, np.divide)

    def neg(self, a, k):
        if k != "f" or not isz(a):
            return -a
        return z3.fpNeg(a)

    def cmp(self, op, a, b, k):
        if k != "f":
            return super().cmp(op, a, b, k)
        if not isz(a) and not isz(b):
            a, b = np.float32(a), np.float32(b)
            return bool({"lt": a < b, "le": a <= b, "gt": a > b, "ge": a >= b, "eq": a == b, "ne": a != b}[op])
        az, bz = self.z(a, "f"), self.z(b, "f")
        return {"lt": z3.fpLT(az, bz), "le": z3.fpLEQ(az, bz), "gt": z3.fpGT(az, bz), "ge": z3.fpGEQ(az, bz),
                "eq": z3.fpEQ(az, bz), "ne": z3.Not(z3.fpEQ(az, bz))}[op]

    def cmp_total_lt(self, a, b):
        """XLA sort comparator: total order (-0 < +0, NaN last)."""
        az, bz = self.z(a, "f"), self.z(b, "f")
        both_zero = z3.And(z3.fpIsZero(az), z3.fpIsZero(bz))
        return z3.If(z3.fpIsNaN(az), False, z3.If(z3.fpIsNaN(bz), True,
                     z3.If(both_zero, z3.And(z3.fpIsNegative(az), z3.fpIsPositive(bz)), z3.fpLT(az, bz))))

    def max(self, a, b, k):
        if k != "f":
            return super().max(a, b, k)
        if not isz(a) and not isz(b):
            return np.float32(np.maximum(np.float32(a), np.float32(b)))
        az, bz = self.z(a, "f"), self.z(b, "f")
        return z3.If(z3.fpIsNaN(az), az, z3.If(z3.fpIsNaN(bz), bz, z3.If(z3.fpGT(az, bz), az, bz)))

    def min(self, a, b, k):
        if k != "f":
            return super().min(a, b, k)
        if not isz(a) and not isz(b):
            return np.float32(np.minimum(np.float32(a), np.float32(b)))
        az, bz = self.z(a, "f"), self.z(b, "f")
        return z3.If(z3.fpIsNaN(az), az, z3.If(z3.fpIsNaN(bz), bz, z3.If(z3.fpLT(az, bz), az, bz)))

    def abs(self, a, k):
        if k != "f":
            return super().abs(a, k)
        return np.float32(abs(a)) if not isz(a) else z3.fpAbs(a)

    def sign(self, a, k):
        if k != "f":
            return super().sign(a, k)
        if not isz(a):
            return np.float32(np.sign(np.float32(a)))
        return z3.If(z3.fpIsNaN(a), a, z3.If(z3.fpIsZero(a), a, z3.If(z3.fpIsNegative(a), self.z(-1.0, "f"), self.z(1.0, "f"))))

    def ipow(self, a, y, k):
        if k != "f":
            return super().ipow(a, y, k)
        r = a
        for _ in range(y - 1):
            r = self.mul(r, a, "f")
        return r

    def unary_uf(self, name, a):
        if name == "sqrt":
            if not isz(a):
                with np.errstate(all="ignore"):
                    return np.float32(np.sqrt(np.float32(a)))
            return z3.fpSqrt(self.RM, a)
        return uf(name, 1, self.F32)(self.z(a, "f"))

    def binary_uf(self, name, a, b):
        return uf(name, 2, self.F32)(self.z(a, "f"), self.z(b, "f"))

    def is_finite(self, a):
        if not isz(a):
            return bool(np.isfinite(a))
        return z3.Not(z3.Or(z3.fpIsNaN(a), z3.fpIsInf(a)))

    def kind_of_val(self, x):
        if isinstance(x, (np.floating, float)):
            return "f"
        return super().kind_of_val(x)

    def ite(self, c, a, b, k=None):
        if not isz(c):
            return a if c else b
        if a is b:
            return a
        if k is None:
            k = self.kind_of_val(a) if isz(a) else self.kind_of_val(b)
        if k == "f":
            az, bz = self.z(a, "f"), self.z(b, "f")
            if az.eq(bz):
                return az
            return z3.If(c, az, bz)
        return super().ite(c, a, b, k)

    def convert(self, a, kfrom, kto):
        if kfrom == kto:
            return a
        if kto == "f":
            if kfrom == "b":
                return self.ite(a, np.float32(1), np.float32(0), "f")
            if not isz(a):
                return np.float32(a)
            return z3.fpToFP(self.RM, z3.ToReal(a), self.F32)
        if kfrom == "f":
            if kto == "b":
                return self.cmp("ne", a, np.float32(0), "f")
            if not isz(a):
                return int(a)
            raise Unsupported("fp32 -> int on symbolic value")
        return super().convert(a, kfrom, kto)
