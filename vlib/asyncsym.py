"""Harness-side construction of rex.asynchronous runtime objects for engine A.

_AsyncNodeWrapper / _AsyncConnectionWrapper instances are created with object.__new__ and populated exactly as
__init__/_reset/_start (resp. __init__/reset/start) would; `_submit` records (target, method, args) instead of crossing threads.
"""
from collections import deque
from fractions import Fraction
from threading import RLock

import z3

from vlib.pysym import Sym, eng

Sym.dtype = "float64"  # lets `onp.array(x).astype(step_state.ts.dtype)` style code run on proxies


class SeqD(int):
    dtype = "int32"

    def __add__(self, o):
        return SeqD(int(self) + int(o))


class NodeStub:
    """stands in for rex.node.BaseNode (only the attributes the async handlers read)"""

    def __init__(self, name, rate, phase=0, advance=False, scheduling=None, delay=0):
        from rex.constants import Scheduling

        self.name, self.rate, self._phase = name, (Fraction(rate) if not isinstance(rate, float) else rate), phase
        self.advance = advance
        self.scheduling = scheduling if scheduling is not None else Scheduling.FREQUENCY
        self.delay = delay
        self.inputs, self.outputs = {}, {}
        self.step_calls = []
        self._async_now = None
        self.info = ("info", name)
        self.delay_dist = type("D", (), {"mean": staticmethod(lambda: 1.0)})()

    @property
    def phase(self):
        return self._phase

    @property
    def phase_output(self):
        return self._phase + self.delay

    def log(self, *a, **k):
        pass

    def step(self, step_state):
        self.step_calls.append(step_state)
        q = int(step_state.seq)
        out = ("output", self.name, q)  # deterministic function of what it is handed (JAX purity)
        new_state = ("state", self.name, q)
        return step_state.replace(state=new_state), out


class ConnStub:
    def __init__(self, input_node, output_node, blocking=False, skip=False, jitter=None, window=1, phase=0, input_name=None):
        from rex.constants import Jitter

        self.input_node, self.output_node = input_node, output_node
        self.blocking, self.skip, self.window = blocking, skip, window
        self.jitter = jitter if jitter is not None else Jitter.LATEST
        self.input_name = input_name or output_node.name
        self.phase = phase
        self.info = None


class WindowStub:
    """list model of base.InputState (justified by the engine-B lemma on InputState.push: last W of old ++ new, oldest first)"""

    def __init__(self, entries, delay_dist=None):
        self.entries = tuple(entries)
        self.delay_dist = delay_dist

    def push(self, seq, ts_sent, ts_recv, data):
        return WindowStub(self.entries[1:] + ((seq, ts_sent, ts_recv, data),), self.delay_dist)


class Samples:
    def __init__(self, xs):
        self.xs = xs

    def tolist(self):
        return list(self.xs)


class Recorder:
    def __init__(self):
        self.tasks = []  # (target wrapper, method name, args)

    def submit_for(self, target):
        def _submit(fn, *args, stopping=False, **kwargs):
            self.tasks.append((target, fn.__name__, args))
            return None

        return _submit

    def names(self, target=None):
        return [n for t, n, a in self.tasks if target is None or t is target]

    def drain(self, order=None, max_tasks=400):
        """play the single-worker executors: tasks of one wrapper run FIFO; wrappers are served in the canonical `order`
        (list of wrappers; default = order of first submission) until quiescence. Returns number of tasks executed."""
        done = 0
        while self.tasks:
            if done >= max_tasks:
                from vlib.pysym import Inconclusive

                raise Inconclusive("task bound exceeded")
            if order is None:
                idx = 0
            else:
                idx = None
                for w in order:
                    for i, (t, n, a) in enumerate(self.tasks):
                        if t is w:
                            idx = i
                            break
                    if idx is not None:
                        break
                if idx is None:
                    idx = 0
            t, n, a = self.tasks.pop(idx)
            getattr(t, n)(*a)
            done += 1
        return done


def delay_source(V, prefix, store):
    """_jit_sample stand-in: returns batches of non-negative delays named <prefix>_d<k>: fresh symbols (symbolic mode) or the
    model's values (concrete replay)"""

    def _jit_sample(dist_state, shape=None):
        n = min(int(shape or 1), 4)
        xs = []
        for _ in range(n):
            k = len(store)
            if V.symbolic:
                d = V.real(f"{prefix}_d{k}", lo=0)
            else:
                d = V.concrete.get(f"{prefix}_d{k}", 0.0)
            store.append(d)
            xs.append(d)
        return dist_state, Samples(xs)

    return _jit_sample


def zero(V):
    import numpy as np

    return Sym("g", 0, Fraction(0)) if V.symbolic else np.float64(0.0)


def mk_node(V, rec, name, rate, phase=0, advance=False, scheduling=None, clock=None, eps=0, record_setting=None, max_records=20000,
            real_time_factor=0, init_seq=0, gs_eps=None):
    from rex import base
    from rex.asynchronous import _AsyncNodeWrapper
    from rex.constants import Async, Clock

    w = object.__new__(_AsyncNodeWrapper)
    w.node = NodeStub(name, rate if V.symbolic else float(rate), phase, advance, scheduling)
    if not V.symbolic:
        w.node.rate = float(rate)
    w.outputs, w.inputs = {}, {}
    w._record_setting = dict(params=False, rng=False, inputs=False, state=False, output=False)
    if record_setting:
        w._record_setting.update(record_setting)
    w._max_records = max_records
    w._num_buffer = 4
    w._jit_reset = None
    w.delays = []
    w._jit_sample = delay_source(V, f"{name}_comp", w.delays)
    w._has_warmed_up = True
    w._eps = eps
    w._state = Async.RUNNING
    w._executor = None
    w._q_task = deque(maxlen=10)
    w._lock = RLock()
    w._tick = 0
    w._record = None
    w._record_steps = []
    w._phase_scheduled = Fraction(0) if V.symbolic else 0.0
    w._phase = phase
    w._sync = None
    w._clock = clock if clock is not None else Clock.SIMULATED
    w._real_time_factor = real_time_factor
    w._phase_output = None
    w._dist_state = "dist_state"
    w._discarded = 0
    w._ts_start = 0.0
    w.q_tick = deque()
    w.q_ts_scheduled = deque()
    w.q_ts_end_prev = deque()
    w.q_ts_start = deque()
    w.q_rng_step = deque()
    w.q_sample = deque()
    w._i = 0
    w._step_state = base.StepState(rng=("rng", name), state=("state", name, "init"), params=("params", name), inputs={}, eps=SeqD(eps if gs_eps is None else gs_eps), seq=SeqD(init_seq), ts=zero(V))  # _reset takes the step state of the graph state it is handed: its seq need not be 0
    w._submit = rec.submit_for(w)
    return w


class _GS:
    def __init__(self, step_state):
        self.step_state = step_state


def real_reset_start(V, nodes, start=None, keep_tokens=False, keep_jit_reset=False):
    """Bring stub-built wrappers to the RUNNING state through the code under test: the real _AsyncNodeWrapper._reset (which resets every
    input through the real _AsyncConnectionWrapper.reset) and ._start (which starts every input), so that the initial drift, the initial
    'end of the previous step', the FIFO floor, the phases, the tick counters and the queues are rex's, not the harness's.  Only the
    jitted delay-distribution reset and jax.random.split (of the opaque rng tag) are stubs.  Must be called before a harness pre-fills
    any queue.  Returns the number of tick tokens _start queued per node."""
    import rex.asynchronous as A
    from rex.constants import Async

    class _Rnd:
        @staticmethod
        def split(rng, num=2):
            return [("split", rng, i) for i in range(num)]

    old_rnd = A.rnd
    A.rnd = _Rnd
    try:
        return _real_reset_start(V, nodes, start, keep_tokens, Async, keep_jit_reset)
    finally:
        A.rnd = old_rnd


def _real_reset_start(V, nodes, start, keep_tokens, Async, keep_jit_reset=False):
    toks = {}
    for w in nodes:
        w._state = Async.STOPPED
        w._eps -= 1
        # whatever an earlier episode (or warmup) left behind must not survive: stale scheduling state is poisoned so that a reset that
        # fails to refresh it shows up in every timing obligation
        w._phase, w._phase_scheduled, w._tick = 777, 555, 99
        for c in w.inputs.values():
            c._phase, c._prev_recv_sc, c._tick = 777, 555, 99
        if not keep_jit_reset or w._jit_reset is None:
            w._jit_reset = lambda rng: "dist_state"
        for c in w.inputs.values():
            c._state = Async.STOPPED
            if not keep_jit_reset or c._jit_reset is None:
                c._jit_reset = lambda rng: "dist_state"
        ss = w._step_state
        try:
            w._reset(_GS({w.node.name: ss}), clock=w._clock, real_time_factor=w._real_time_factor)
        except (ValueError, NotImplementedError):
            # rex refuses advance=True without blocking inputs on the simulated clock; such a node only runs on the wall clock, whose
            # time source the harness replaces by the simulated one: run the same reset with the guard's precondition lifted
            adv = w.node.advance
            w.node.advance = False
            try:
                w._reset(_GS({w.node.name: ss}), clock=w._clock, real_time_factor=w._real_time_factor)
            finally:
                w.node.advance = adv
    for w in nodes:
        w._state = Async.READY_TO_START
        w._start(zero(V) if start is None else start)
        toks[w.node.name] = len(w.q_tick)
        if not keep_tokens:
            w.q_tick.clear()
    return toks


NODE_ATTRS_SET = ["node", "outputs", "inputs", "_record_setting", "_max_records", "_num_buffer", "_jit_reset", "_jit_sample", "_has_warmed_up",
                  "_eps", "_state", "_executor", "_q_task", "_lock", "_tick", "_record", "_record_steps", "_phase_scheduled", "_phase", "_sync",
                  "_clock", "_real_time_factor", "_phase_output", "_dist_state", "_discarded", "_ts_start", "q_tick", "q_ts_scheduled",
                  "q_ts_end_prev", "q_ts_start", "q_rng_step", "q_sample", "_i", "_step_state"]


def mk_conn(V, rec, out_w, in_w, blocking=False, skip=False, jitter=None, window=1, phase=0, input_name=None):
    from rex.asynchronous import _AsyncConnectionWrapper
    from rex.constants import Async

    c = object.__new__(_AsyncConnectionWrapper)
    c.connection = ConnStub(in_w.node, out_w.node, blocking, skip, jitter, window, phase, input_name)
    in_w.node.inputs[c.connection.input_name] = c.connection
    out_w.node.outputs[in_w.node.name] = c.connection
    c.output_node, c.input_node = out_w, in_w
    c._state = Async.RUNNING
    c._num_buffer = 4
    c._jit_update_input_state = lambda input_state, seq, ts_sent, ts_recv, msg: input_state.push(seq, ts_sent, ts_recv, msg)
    c._jit_reset = None
    c.delays = []
    c._jit_sample = delay_source(V, f"{out_w.node.name}_{in_w.node.name}_comm", c.delays)
    c._has_warmed_up = True
    c._executor = None
    c._q_task = deque(maxlen=10)
    c._lock = RLock()
    c._tick = 0
    c._input_state = None
    c._record = "input-record"
    c._record_messages = []
    c._phase = phase
    c._phase_dist = None
    c._prev_recv_sc = zero(V)
    c._dist_state = "dist_state"
    c.q_msgs = deque()
    c.q_ts_input = deque()
    c.q_ts_max = deque()
    c.q_zip_delay = deque()
    c.q_zip_msgs = deque()
    c.q_expected_select = deque()
    c.q_expected_ts_max = deque()
    c.q_grouped = deque()
    c.q_ts_next_step = deque()
    c.q_sample = deque()
    c.log = lambda *a, **k: None
    c._submit = rec.submit_for(c)
    out_w.outputs[in_w.node.name] = c
    in_w.inputs[c.connection.input_name] = c
    # default (not-yet-filled) input window of the receiver
    ss = in_w._step_state
    win = WindowStub([(-(window - j), 0.0, 0.0, ("default", out_w.node.name)) for j in range(window)])
    new_inputs = dict(ss.inputs)
    new_inputs[c.connection.input_name] = win
    in_w._step_state = ss.replace(inputs=new_inputs)
    return c


CONN_ATTRS_SET = ["connection", "output_node", "input_node", "_state", "_num_buffer", "_jit_update_input_state", "_jit_reset", "_jit_sample",
                  "_has_warmed_up", "_executor", "_q_task", "_lock", "_tick", "_input_state", "_record", "_record_messages", "_phase",
                  "_phase_dist", "_prev_recv_sc", "_dist_state", "q_msgs", "q_ts_input", "q_ts_max", "q_zip_delay", "q_zip_msgs",
                  "q_expected_select", "q_expected_ts_max", "q_grouped", "q_ts_next_step", "q_sample"]


def attribute_selftest():
    """Compare the attribute sets populated by the harness with those of really constructed+reset wrappers, so that a refactor
    adding runtime state is noticed. Returns (missing_in_harness_node, missing_in_harness_conn)."""
    import jax
    from distrax import Deterministic
    from rex.asynchronous import AsyncGraph
    from rex.constants import Clock, RealTimeFactor
    from vlib.fixtures import ProbeNode

    n1 = ProbeNode(name="a", rate=10, delay_dist=Deterministic(0.01))
    n2 = ProbeNode(name="b", rate=10, delay_dist=Deterministic(0.01))
    n1.connect(n2, window=1, blocking=False, delay_dist=Deterministic(0.01))
    g = AsyncGraph({"a": n1, "b": n2}, supervisor=n1, clock=Clock.SIMULATED, real_time_factor=RealTimeFactor.FAST_AS_POSSIBLE)
    gs = g.init()
    g.warmup(gs)
    for w in g._async_nodes.values():
        w._reset(gs, clock=Clock.SIMULATED, real_time_factor=0)
    wn = g._async_nodes["a"]
    wc = wn.inputs["b"]
    real_n = set(vars(wn).keys())
    real_c = set(vars(wc).keys())
    for w in g._async_nodes.values():
        w._executor.shutdown(wait=False)
        for c in w.inputs.values():
            c._executor.shutdown(wait=False)
    ignore = {"async_step", "_submit", "log", "delays"}
    return sorted(real_n - set(NODE_ATTRS_SET) - ignore), sorted(real_c - set(CONN_ATTRS_SET) - ignore)
