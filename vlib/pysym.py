"""Engine A: proxy-based symbolic execution of the unmodified Python functions of /repo.

Sym wraps a z3 term and implements the numeric protocol; comparisons yield SymBool whose __bool__ asks the engine for a decision.
explore(fn) re-runs fn along every feasible decision prefix (stateless DFS, solver-checked branch feasibility).

Numeric forms of Sym:
  'g'  grid normal form  value = g/10^6 + o   (g: z3 Int term or int, o: exact Fraction)  -- everything the runtime keeps on the 1 us grid
  'n'  nanosecond form   value = n/10^9 + o   (n: z3 Int term)  -- "arbitrary" times and delays are quantified over the 1 ns grid, which
                                               keeps every path condition in linear *integer* arithmetic (mixed Int/Real rounding
                                               constraints time out in z3 and cvc5 alike); all rounding ties (x.5 us = 500 ns) are on that grid
  'r'  generic real      value = r            (z3 Real term; only produced by non-integer scaling, not used by the async harnesses)
  'i'  integer           value = i            (z3 Int term)
round(x, 6) is modelled as round-half-up to the 1 us grid: exact integer arithmetic in form 'g', a fresh Int with two linear side
constraints in form 'r'.
"""
import itertools
import math
import time
from fractions import Fraction

import z3

MICRO = 10**6
NANO = 10**9
_cnt = itertools.count()


class Inconclusive(BaseException):
    """solver said unknown on a branch-feasibility query, or an unwinding bound was exceeded: the harness must not pass"""


class PathInfeasible(BaseException):
    pass


class Engine:
    current = None

    def __init__(self, timeout_ms=20000, max_paths=20000, max_int_fork=64):
        self.timeout_ms = timeout_ms
        self.max_paths = max_paths
        self.max_int_fork = max_int_fork
        self.queries = 0
        self.solver_s = 0.0
        self.paths = 0
        self.base = []  # global assumptions (added to every path)

    # -- path state ------------------------------------------------------------------------------
    def _start_path(self, prefix):
        self.prefix = list(prefix)
        self.trace = []
        self.pc = list(self.base)
        self.solver = z3.Solver()
        self.solver.set("timeout", min(self.timeout_ms, 3000))  # incremental attempts are cheap; a fresh solver gets the full budget
        for c in self.pc:
            self.solver.add(c)

    def _check(self, *extra):
        t0 = time.time()
        self.queries += 1
        r = self.solver.check(*extra)
        if r == z3.unknown:
            # z3's incremental arithmetic core occasionally gives up on mixed Int/Real queries that a fresh solver decides at once
            s = z3.Solver()
            s.set("timeout", self.timeout_ms)
            for c in self.pc:
                s.add(c)
            for c in extra:
                s.add(c)
            self.queries += 1
            r = s.check()
            if r == z3.sat:
                self._last_model = s.model()
            # rebuild the incremental solver so that it does not stay in the degraded state
            self.solver = z3.Solver()
            self.solver.set("timeout", self.timeout_ms)
            for c in self.pc:
                self.solver.add(c)
        elif r == z3.sat:
            self._last_model = self.solver.model()
        self.solver_s += time.time() - t0
        return r

    def assume(self, cond):
        if isinstance(cond, bool):
            if not cond:
                raise PathInfeasible()
            return
        if isinstance(cond, SymBool):
            cond = cond.t
        self.pc.append(cond)
        self.solver.add(cond)

    def assume_checked(self, cond):
        self.assume(cond)
        r = self._check()
        if r == z3.unsat:
            raise PathInfeasible()
        if r == z3.unknown:
            raise Inconclusive("unknown on assumption")

    def decide(self, cond):
        """cond: z3 Bool. returns python bool and extends the path condition."""
        if z3.is_true(cond):
            return True
        if z3.is_false(cond):
            return False
        k = len(self.trace)
        if k < len(self.prefix):
            d = self.prefix[k]
            self.trace.append(d)
            self.assume(cond if d else z3.Not(cond))
            return d
        rt = self._check(cond)
        rf = self._check(z3.Not(cond))
        if rt == z3.unknown or rf == z3.unknown:
            raise Inconclusive(f"solver unknown on a branch-feasibility query: {cond}")
        if rt == z3.sat and rf == z3.sat:
            self.pending.append(self.trace + [False])
            d = True
        elif rt == z3.sat:
            d = True
        elif rf == z3.sat:
            d = False
        else:
            raise PathInfeasible()
        self.trace.append(d)
        self.prefix.append(d)
        self.assume(cond if d else z3.Not(cond))
        return d

    def min_value(self, term):
        """smallest feasible integer value of `term` under the current path condition (deterministic)."""
        r = self._check()
        if r != z3.sat:
            if r == z3.unknown:
                raise Inconclusive("unknown while concretising an integer")
            raise PathInfeasible()
        v = self._last_model.eval(term, model_completion=True).as_long()
        for _ in range(64):
            r = self._check(term < v)
            if r == z3.unsat:
                return v
            if r == z3.unknown:
                raise Inconclusive("unknown while concretising an integer")
            v = self._last_model.eval(term, model_completion=True).as_long()
        raise Inconclusive("integer concretisation did not converge")

    def concretize(self, term):
        """fork over the feasible integer values of term (bounded)."""
        if isinstance(term, int):
            return term
        for _ in range(self.max_int_fork):
            v = self.min_value(term)
            if self.decide(term == v):
                return v
        raise Inconclusive(f"unwinding bound {self.max_int_fork} exceeded while concretising {term}")

    # -- exploration -----------------------------------------------------------------------------
    def explore(self, fn):
        """returns list of (pc, result) for every feasible path of fn()."""
        prev = Engine.current
        Engine.current = self
        self.pending = [[]]
        out = []
        try:
            while self.pending:
                prefix = self.pending.pop()
                self._start_path(prefix)
                self.paths += 1
                if self.paths > self.max_paths:
                    raise Inconclusive(f"more than {self.max_paths} paths")
                try:
                    res = fn()
                except PathInfeasible:
                    continue
                out.append((list(self.pc), res))
        finally:
            Engine.current = prev
        return out

    def prove(self, pc, goal, timeout_ms=None):
        """is pc => goal valid?  ('unsat'|'sat'|'unknown', model)"""
        if goal is True:
            return "unsat", None
        if isinstance(goal, SymBool):
            goal = goal.t
        if isinstance(goal, bool):
            goal = z3.BoolVal(goal)
        s = z3.Solver()
        s.set("timeout", timeout_ms or self.timeout_ms)
        for c in pc:
            s.add(c)
        s.add(z3.Not(goal))
        t0 = time.time()
        self.queries += 1
        r = s.check()
        self.solver_s += time.time() - t0
        if r == z3.unsat:
            return "unsat", None
        if r == z3.sat:
            return "sat", s.model()
        return "unknown", None


def eng():
    e = Engine.current
    if e is None:
        raise RuntimeError("no active pysym engine")
    return e


# ---------------------------------------------------------------------------------------------------
def _frac(x):
    if isinstance(x, Fraction):
        return x
    if isinstance(x, bool):
        return Fraction(int(x))
    if isinstance(x, int):
        return Fraction(x)
    if isinstance(x, float):
        return Fraction(x)
    try:
        import numpy as np

        if isinstance(x, np.generic):
            return Fraction(x.item())
    except Exception:
        pass
    raise TypeError(f"not a number: {type(x)}")


def is_num(x):
    if isinstance(x, (int, float, Fraction)):
        return True
    try:
        import numpy as np

        return isinstance(x, np.generic)
    except Exception:
        return False


class SymBool:
    __slots__ = ("t",)

    def __init__(self, t):
        self.t = t

    def __bool__(self):
        return eng().decide(self.t)

    def __and__(self, o):
        return SymBool(z3.And(self.t, o.t if isinstance(o, SymBool) else z3.BoolVal(bool(o))))

    def __or__(self, o):
        return SymBool(z3.Or(self.t, o.t if isinstance(o, SymBool) else z3.BoolVal(bool(o))))

    def __invert__(self):
        return SymBool(z3.Not(self.t))

    def __repr__(self):
        return f"SymBool({self.t})"


def zb(x):
    if isinstance(x, SymBool):
        return x.t
    if isinstance(x, z3.BoolRef):
        return x
    return z3.BoolVal(bool(x))


F_EXP = z3.Function("F_exp", z3.RealSort(), z3.RealSort())
F_LOG = z3.Function("F_log", z3.RealSort(), z3.RealSort())


class ObjNumpy:
    """stands in for `numpy` / `jax.numpy` in small host-side functions: arrays are numpy object arrays of Sym, exp/log are uninterpreted,
    sorting and max/min fork on solver-checked comparisons.  Anything not listed raises Inconclusive (never silently concretised)."""

    def __init__(self):
        import numpy as _onp
        self._onp = _onp

    def _map(self, x, f):
        if isinstance(x, self._onp.ndarray):
            out = self._onp.empty(x.shape, dtype=object)
            for i in self._onp.ndindex(*x.shape):
                out[i] = f(x[i])
            return out
        return f(x)

    @staticmethod
    def _s(x):
        return x if isinstance(x, Sym) else Sym("g", 0, _frac(x))

    def exp(self, x):
        return self._map(x, lambda e: self._s(e).exp())

    def log(self, x):
        return self._map(x, lambda e: self._s(e).log())

    def sum(self, x, axis=None):
        t = 0
        for e in self._onp.asarray(x, dtype=object).reshape(-1):
            t = t + e
        return t

    def _map2(self, a, b, f):
        if isinstance(a, self._onp.ndarray) or isinstance(b, self._onp.ndarray):
            return self._onp.frompyfunc(f, 2, 1)(a, b)
        return f(a, b)

    def maximum(self, a, b):
        return self._map2(a, b, lambda x, y: x if bool(self._s(x) >= y) else y)

    def minimum(self, a, b):
        return self._map2(a, b, lambda x, y: x if bool(self._s(x) <= y) else y)

    def abs(self, x):
        return self._map(x, lambda e: e if bool(self._s(e) >= 0) else -e)

    def argsort(self, x):
        """stable ascending insertion sort (jnp.argsort is stable); every comparison is a solver-checked decision"""
        x = list(x)
        idx = []
        for i in range(len(x)):
            k = len(idx)
            while k > 0 and bool(self._s(x[i]) < x[idx[k - 1]]):
                k -= 1
            idx.insert(k, i)
        return self._onp.array(idx, dtype=int)

    def array(self, x, *a, **k):
        return self._onp.array(x, dtype=object)

    asarray = array
    float32 = "float32"  # dtype tokens are only ever passed on (astype of a stand-in)
    float64 = "float64"

    def mean(self, x, *a, **k):
        """delegates to the stand-in's own statistic (a data stand-in carries its mean/std as solver symbols)"""
        if hasattr(x, "mean") and not isinstance(x, self._onp.ndarray):
            return x.mean()
        xs = list(self._onp.asarray(x, dtype=object).reshape(-1))
        return self.sum(xs) / len(xs)

    def std(self, x, *a, **k):
        if hasattr(x, "std") and not isinstance(x, self._onp.ndarray):
            return x.std()
        raise Inconclusive("numpy.std of a symbolic array is not modelled (square root)")

    def __getattr__(self, n):
        raise Inconclusive(f"numpy function `{n}` is not modelled by ObjNumpy")


class Sym:
    __slots__ = ("kind", "g", "o", "r")
    __array_priority__ = 1000

    def __init__(self, kind, g=None, o=Fraction(0), r=None):
        self.kind, self.g, self.o, self.r = kind, g, o, r

    # constructors ---------------------------------------------------------------------------------
    @staticmethod
    def grid(name=None, g=None, o=Fraction(0)):
        return Sym("g", g if g is not None else z3.Int(name or f"g!{next(_cnt)}"), Fraction(o))

    @staticmethod
    def real(name=None, r=None):
        """an 'arbitrary real' time/delay: quantified over the 1 ns grid (see module docstring)"""
        if r is not None:
            return Sym("r", r=r)
        return Sym("n", z3.Int(name or f"n!{next(_cnt)}"), Fraction(0))

    @staticmethod
    def integer(name=None, i=None):
        return Sym("i", g=i if i is not None else z3.Int(name or f"i!{next(_cnt)}"))

    # views ----------------------------------------------------------------------------------------
    def real_term(self):
        if self.kind == "r":
            return self.r
        if self.kind == "i":
            return z3.ToReal(self.g) if isinstance(self.g, z3.ExprRef) else z3.RealVal(self.g)
        g = z3.ToReal(self.g) if isinstance(self.g, z3.ExprRef) else z3.RealVal(self.g)
        t = g / (MICRO if self.kind == "g" else NANO)
        return t + z3.RealVal(self.o) if self.o != 0 else t

    def ns(self):
        """(n, o) with value = n/1e9 + o, for kinds g / n / i"""
        if self.kind == "n":
            return self.g, self.o
        if self.kind == "g":
            return self.g * 1000, self.o
        if self.kind == "i":
            return self.g * NANO, Fraction(0)
        raise TypeError("no ns form for a generic real")

    def is_concrete(self):
        return self.kind in ("g", "i", "n") and not isinstance(self.g, z3.ExprRef)

    def concrete_value(self):
        assert self.is_concrete()
        if self.kind == "i":
            return Fraction(self.g)
        return Fraction(self.g, MICRO if self.kind == "g" else NANO) + self.o

    # arithmetic -----------------------------------------------------------------------------------
    def _coerce(self, other):
        if isinstance(other, Sym):
            return other
        if is_num(other):
            f = _frac(other)
            return Sym("g", 0, f)
        return None

    def __add__(self, other):
        o = self._coerce(other)
        if o is None:
            return NotImplemented
        a, b = self, o
        # integer +- integral constant stays an integer
        if a.kind == "i" and b.kind == "g" and not isinstance(b.g, z3.ExprRef) and b.g == 0 and b.o.denominator == 1:
            b = Sym("i", g=int(b.o))
        if b.kind == "i" and a.kind == "g" and not isinstance(a.g, z3.ExprRef) and a.g == 0 and a.o.denominator == 1:
            a = Sym("i", g=int(a.o))
        if a.kind == "i" and b.kind == "i":
            return Sym("i", g=a.g + b.g)
        if a.kind == "i":
            a = a.to_grid()
        if b.kind == "i":
            b = b.to_grid()
        if a.kind == "g" and b.kind == "g":
            return Sym("g", a.g + b.g, a.o + b.o)
        if a.kind in ("g", "n") and b.kind in ("g", "n"):
            (na, oa), (nb, ob) = a.ns(), b.ns()
            return Sym("n", na + nb, oa + ob)
        return Sym("r", r=a.real_term() + b.real_term())

    __radd__ = __add__

    def to_grid(self):
        if self.kind == "i":
            return Sym("g", self.g * MICRO, Fraction(0))
        return self

    def __neg__(self):
        if self.kind == "i":
            return Sym("i", g=-self.g)
        if self.kind in ("g", "n"):
            return Sym(self.kind, -self.g, -self.o)
        return Sym("r", r=-self.r)

    def __sub__(self, other):
        o = self._coerce(other)
        if o is None:
            return NotImplemented
        return self + (-o)

    def __rsub__(self, other):
        o = self._coerce(other)
        if o is None:
            return NotImplemented
        return o + (-self)

    def __mul__(self, other):
        if isinstance(other, Sym):
            if other.is_concrete():
                other = other.concrete_value()
            elif self.is_concrete():
                return other * self.concrete_value()
            else:
                return Sym("r", r=self.real_term() * other.real_term())
        if not is_num(other):
            return NotImplemented
        f = _frac(other)
        if self.kind == "i" and f.denominator == 1:
            return Sym("i", g=self.g * int(f))
        if self.kind in ("g", "n") and f.denominator == 1:
            return Sym(self.kind, self.g * int(f), self.o * f)
        return Sym("r", r=self.real_term() * z3.RealVal(f))

    __rmul__ = __mul__

    def __truediv__(self, other):
        if isinstance(other, Sym):
            if other.is_concrete():
                other = other.concrete_value()
            else:
                return Sym("r", r=self.real_term() / other.real_term())
        if not is_num(other):
            return NotImplemented
        f = _frac(other)
        return self * (1 / f)

    def __rtruediv__(self, other):
        if not is_num(other):
            return NotImplemented
        return Sym("r", r=z3.RealVal(_frac(other)) / self.real_term())

    def __floordiv__(self, other):
        if isinstance(other, Sym):
            if not other.is_concrete():
                raise Inconclusive("floor division by a symbolic value")
            other = other.concrete_value()
        d = _frac(other)
        assert d > 0
        unit = MICRO
        if self.kind == "i":
            a_num, a_den, g = 0, 1, self.g * MICRO  # value = g/1e6
        elif self.kind == "g":
            g = self.g
            mo = self.o * MICRO
            a_num, a_den = mo.numerator, mo.denominator
        elif self.kind == "n":
            g, unit = self.g, NANO
            mo = self.o * NANO
            a_num, a_den = mo.numerator, mo.denominator
        else:
            k = z3.Int(f"fl!{next(_cnt)}")
            q = self.r / z3.RealVal(d)
            eng().assume(z3.And(z3.ToReal(k) <= q, q < z3.ToReal(k) + 1))
            return Sym("i", g=k)
        md = d * unit
        c, dd = md.numerator, md.denominator  # unit*d = c/dd
        num = (g * a_den + a_num) * dd
        den = a_den * c
        if not isinstance(num, z3.ExprRef):
            return Sym("i", g=num // den)
        k = z3.Int(f"fl!{next(_cnt)}")  # floor as a fresh integer with two linear side constraints (keeps the path condition linear)
        eng().assume(z3.And(den * k <= num, num < den * k + den))
        return Sym("i", g=k)

    def __rfloordiv__(self, other):
        raise Inconclusive("floor division with a symbolic divisor")

    # comparisons ----------------------------------------------------------------------------------
    def _cmp(self, other, op):
        o = self._coerce(other)
        if o is None:
            return NotImplemented
        a, b = self, o
        if a.kind == "i" and b.kind == "i":
            l, r = a.g, b.g
        elif a.kind in ("g", "i", "n") and b.kind in ("g", "i", "n"):
            if "n" in (a.kind, b.kind):
                (na, oa), (nb, ob) = a.ns(), b.ns()
                dg = na - nb
                rhs = (ob - oa) * NANO
            else:
                a, b = a.to_grid(), b.to_grid()
                dg = a.g - b.g
                rhs = (b.o - a.o) * MICRO
            if not isinstance(dg, z3.ExprRef):
                l, r = Fraction(dg), rhs
                return {"lt": l < r, "le": l <= r, "gt": l > r, "ge": l >= r, "eq": l == r, "ne": l != r}[op]
            if rhs.denominator == 1:
                l, r = dg, int(rhs)
            else:
                l, r = dg * rhs.denominator, rhs.numerator
        else:
            l, r = a.real_term(), b.real_term()
        t = {"lt": l < r, "le": l <= r, "gt": l > r, "ge": l >= r, "eq": l == r, "ne": l != r}[op]
        if isinstance(t, bool):
            return t
        return SymBool(z3.simplify(t) if False else t)

    def __lt__(self, o):
        return self._cmp(o, "lt")

    def __le__(self, o):
        return self._cmp(o, "le")

    def __gt__(self, o):
        return self._cmp(o, "gt")

    def __ge__(self, o):
        return self._cmp(o, "ge")

    def __eq__(self, o):
        return self._cmp(o, "eq")

    def __ne__(self, o):
        return self._cmp(o, "ne")

    __hash__ = None

    def exp(self):
        """uninterpreted exp with the axiom exp(x) > 0 (added to the path for every application)"""
        t = F_EXP(self.real_term())
        eng().assume(t > 0)
        return Sym("r", r=t)

    def log(self):
        return Sym("r", r=F_LOG(self.real_term()))

    def __format__(self, spec):
        return "<sym>"

    def __repr__(self):
        if self.kind == "r":
            return f"Sym(r:{self.r})"
        if self.kind == "i":
            return f"Sym(i:{self.g})"
        return f"Sym({self.kind}:{self.g}/{'1e6' if self.kind == 'g' else '1e9'}+{self.o})"

    def __float__(self):
        raise Inconclusive("float() of a symbolic value reached C code")

    def __bool__(self):
        return bool(self != 0)


def _broadcasting(opname):
    import numpy as _onp
    import operator

    orig = getattr(Sym, opname)
    refl = {"__add__": operator.add, "__radd__": lambda a, b: b + a, "__sub__": operator.sub, "__rsub__": lambda a, b: b - a, "__mul__": operator.mul,
            "__rmul__": lambda a, b: b * a, "__truediv__": operator.truediv, "__rtruediv__": lambda a, b: b / a}[opname]

    def op(self, other):
        if isinstance(other, _onp.ndarray):
            out = _onp.empty(other.shape, dtype=object)
            for i in _onp.ndindex(*other.shape):
                out[i] = refl(self, other[i])
            return out
        return orig(self, other)

    op.__name__ = opname
    return op


for _n in ("__add__", "__radd__", "__sub__", "__rsub__", "__mul__", "__rmul__", "__truediv__", "__rtruediv__"):
    setattr(Sym, _n, _broadcasting(_n))


def T(x):
    """z3 Real term of a number or Sym"""
    if isinstance(x, Sym):
        return x.real_term()
    return z3.RealVal(_frac(x))


def TI(x):
    """z3 Int term of an int or integer Sym"""
    if isinstance(x, Sym):
        assert x.kind == "i"
        return x.g if isinstance(x.g, z3.ExprRef) else z3.IntVal(x.g)
    return z3.IntVal(int(x))


def eq(a, b):
    """z3 Bool: a == b for numbers / Syms"""
    if isinstance(a, Sym):
        r = a._cmp(b, "eq")
    elif isinstance(b, Sym):
        r = b._cmp(a, "eq")
    else:
        r = _frac(a) == _frac(b)
    return zb(r)


# patched builtins ------------------------------------------------------------------------------------
def sym_round(x, nd=None):
    if not isinstance(x, Sym):
        if nd is None:
            return round(x)
        f = _frac(x)
        return Fraction(math.floor(f * 10**nd + Fraction(1, 2)), 10**nd)
    assert nd == 6, "only round(x, 6) is modelled"
    if x.kind == "i":
        return x
    if x.kind == "g":
        return Sym("g", x.g + math.floor(x.o * MICRO + Fraction(1, 2)), Fraction(0))
    if x.kind == "n":
        if not isinstance(x.g, z3.ExprRef):
            return Sym("g", math.floor(Fraction(x.g, 1000) + x.o * MICRO + Fraction(1, 2)), Fraction(0))
        k = z3.Int(f"rnd!{next(_cnt)}")  # 1000k <= n + o*1e9 + 500 < 1000k + 1000   (linear integer arithmetic)
        off = x.o * NANO + 500
        a, b = off.numerator, off.denominator
        eng().assume(z3.And(1000 * b * k <= x.g * b + a, x.g * b + a < 1000 * b * k + 1000 * b))
        return Sym("g", k, Fraction(0))
    k = z3.Int(f"rnd!{next(_cnt)}")
    q = x.r * MICRO + z3.RealVal(Fraction(1, 2))
    eng().assume(z3.And(z3.ToReal(k) <= q, q < z3.ToReal(k) + 1))
    return Sym("g", k, Fraction(0))


def sym_float(x):
    if isinstance(x, Sym):
        return x
    if isinstance(x, Fraction):
        return x
    return float(x)


def sym_int(x):
    if isinstance(x, Sym):
        if x.kind == "i":
            return eng().concretize(x.g)
        # truncation toward zero of a grid/real value
        fl = x // 1
        v = eng().concretize(fl.g)
        if v < 0:
            # trunc(v) = ceil for negatives
            if bool(x == v):
                return v
            return v + 1
        return v
    if isinstance(x, Fraction):
        return int(x)
    return int(x)


def sym_str(x):
    if isinstance(x, Sym):
        return "<sym>"
    return str(x)


def sym_max(*args, **kw):
    if len(args) == 1:
        args = tuple(args[0])
    if not any(isinstance(a, Sym) for a in args):
        return max(*args, **kw) if len(args) > 1 else args[0]
    best = args[0]
    for a in args[1:]:
        if a > best:
            best = a
    return best


class IntD(int):
    """int that survives `x + 1` and carries a dtype attribute (stands in for a numpy integer scalar)"""
    dtype = "int32"

    def __add__(self, o):
        return IntD(int(self) + int(o))


class _Arr:
    def __init__(self, x):
        self.x = x

    def astype(self, dt):
        if isinstance(self.x, int) and not isinstance(self.x, bool):
            return IntD(self.x)
        return self.x


class FakeNumpy:
    """stands in for `onp` inside rex.asynchronous: array(x).astype(dtype) -> x (dtype promotion is not modelled)"""

    def __init__(self, real):
        self._real = real

    def array(self, x, *a, **k):
        if isinstance(x, Sym) or isinstance(x, (int, Fraction)):
            return _Arr(x)
        return self._real.array(x, *a, **k)

    def __getattr__(self, n):
        return getattr(self._real, n)


class patched:
    """context manager: inject symbolic builtins into a module's globals (module globals shadow builtins)"""

    def __init__(self, module, names=("round", "float", "int", "str"), extra=None):
        self.module, self.names, self.extra = module, names, extra or {}

    def __enter__(self):
        self.saved = {}
        repl = {"round": sym_round, "float": sym_float, "int": sym_int, "str": sym_str, "max": sym_max}
        for n in self.names:
            self.saved[n] = self.module.__dict__.get(n, _MISSING)
            self.module.__dict__[n] = repl[n]
        for n, v in self.extra.items():
            self.saved[n] = self.module.__dict__.get(n, _MISSING)
            self.module.__dict__[n] = v
        return self

    def __exit__(self, *exc):
        for n, v in self.saved.items():
            if v is _MISSING:
                del self.module.__dict__[n]
            else:
                self.module.__dict__[n] = v
        return False


_MISSING = object()


def model_num(m, x):
    """python Fraction value of a number / Sym under model m"""
    if not isinstance(x, Sym):
        return _frac(x)
    v = m.eval(x.real_term(), model_completion=True)
    if z3.is_rational_value(v):
        return Fraction(v.numerator_as_long(), v.denominator_as_long())
    if z3.is_int_value(v):
        return Fraction(v.as_long())
    if z3.is_algebraic_value(v):
        return v.approx(20).as_fraction()
    raise TypeError(v)


# ---------------------------------------------------------------------------------------------------
class Vars:
    """Input provider for a scenario: symbolic mode hands out Syms (and records them by name), concrete mode hands out the
    python floats of a solver model so that the very same scenario can be replayed on the unpatched real code."""

    def __init__(self, concrete=None):
        self.concrete = concrete
        self.syms = {}

    @property
    def symbolic(self):
        return self.concrete is None

    def _get(self, name, mk):
        if self.concrete is not None:
            return self.concrete[name]
        if name not in self.syms:
            self.syms[name] = mk()
        return self.syms[name]

    def grid(self, name, lo=None, hi=None):
        """a time on the 1 us grid"""
        x = self._get(name, lambda: Sym.grid(name))
        self._bounds(x, lo, hi)
        return x

    def real(self, name, lo=None, hi=None):
        x = self._get(name, lambda: Sym.real(name))
        self._bounds(x, lo, hi)
        return x

    def integer(self, name, lo=None, hi=None):
        x = self._get(name, lambda: Sym.integer(name))
        self._bounds(x, lo, hi)
        return x

    def anyreal(self, name, lo=None, hi=None):
        """a genuinely real-valued input (z3 Real): for functions without rounding, where no Int/Real mixing arises"""
        x = self._get(name, lambda: Sym.real(r=z3.Real(name)))
        self._bounds(x, lo, hi)
        return x

    def _bounds(self, x, lo, hi):
        if self.concrete is not None:
            return
        if lo is not None:
            eng().assume(zb(x >= lo))
        if hi is not None:
            eng().assume(zb(x <= hi))

    def assume(self, cond):
        """precondition of the scenario: constrains the path symbolically; must hold in a concrete replay (else replay is void)"""
        if self.concrete is not None:
            if isinstance(cond, SymBool):
                cond = z3.is_true(z3.simplify(cond.t))
            if not bool(cond):
                raise PathInfeasible()
            return
        eng().assume_checked(zb(cond))

    def values(self, model):
        out = {}
        for n, s in self.syms.items():
            f = model_num(model, s)
            out[n] = int(f) if s.kind == "i" else float(f)
        return out


def run_scenario(scenario, modules, extra_patch=None, timeout_ms=20000, max_paths=20000, tol=1e-9, known=None, patch_names=("round", "float", "int", "str")):
    """scenario(V) -> dict name -> obligation (SymBool/bool) ; names starting with '_' are observations, 'twin:' entries are
    reachability witnesses (must be satisfiable on some path).
    Returns list of dict(name, verdict, secs, paths, model, replayed, detail)."""
    import contextlib

    e = Engine(timeout_ms=timeout_ms, max_paths=max_paths)
    vars_box = {}

    def fn():
        V = Vars()
        vars_box["V"] = V
        with contextlib.ExitStack() as st:
            for m in modules:
                st.enter_context(patched(m, names=patch_names, extra=(extra_patch or {}).get(m.__name__)))
            try:
                res = scenario(V)
            except (Inconclusive, PathInfeasible):
                raise
            except Exception as ex:  # the code under test raised on this path (e.g. an internal assert): that is an observable failure
                import traceback
                tb = traceback.extract_tb(ex.__traceback__)
                where = [f"{f.name}:{f.lineno}" for f in tb if "/rex/" in f.filename][-2:]
                res = {"the handlers raise no exception": SymBool(z3.BoolVal(False)), "_exception": f"{type(ex).__name__}: {ex} at {where}"}
        return V, res

    t0 = time.time()
    paths = e.explore(fn)
    results = {}
    for pc, (V, res) in paths:
        for name, ob in res.items():
            if name.startswith("_"):
                continue
            r = results.setdefault(name, dict(name=name, verdict="unsat", secs=0.0, paths=0, model=None, replayed=None, detail=None, twin=name.startswith("twin:")))
            r["paths"] += 1
            t1 = time.time()
            if r["twin"]:
                if r["verdict"] == "sat" and r.get("_seen"):
                    continue
                s = z3.Solver()
                s.set("timeout", timeout_ms)
                for c in pc:
                    s.add(c)
                s.add(zb(ob))
                rr = s.check()
                e.queries += 1
                if rr == z3.sat:
                    r["verdict"], r["_seen"] = "sat", True
                elif rr == z3.unknown and not r.get("_seen"):
                    r["verdict"] = "unknown"
                elif not r.get("_seen") and r["verdict"] != "unknown":
                    r["verdict"] = "unsat"
                r["secs"] += time.time() - t1
                continue
            if r["verdict"] == "sat":
                continue
            v, m = e.prove(pc, ob)
            r["secs"] += time.time() - t1
            if v == "unknown":
                r["verdict"] = "unknown"
            elif v == "sat":
                r["verdict"] = "sat"
                vals = V.values(m)
                r["model"] = vals
                if "_exception" in res:
                    r["sym_exception"] = res["_exception"]
                # replay on the unpatched real code with python floats
                try:
                    Vc = Vars(concrete=vals)
                    prev = Engine.current
                    Engine.current = None
                    try:
                        try:
                            cres = scenario(Vc)
                        except PathInfeasible:
                            raise
                        except Exception as ex:  # noqa
                            cres = {"the handlers raise no exception": False, "_exception": f"{type(ex).__name__}: {ex}"}
                    finally:
                        Engine.current = prev
                    val = cres.get(name)
                    r["replayed"] = (val is not None) and (not bool(val))
                    r["detail"] = {k: (float(v_) if is_num(v_) else str(v_)) for k, v_ in cres.items() if k.startswith("_")}
                except PathInfeasible:
                    r["replayed"] = False
                    r["detail"] = "model violates a precondition when evaluated in floats"
                except BaseException as ex:  # noqa
                    r["replayed"] = None
                    r["detail"] = f"replay raised {type(ex).__name__}: {ex}"
    out = list(results.values())
    for r in out:
        r.pop("_seen", None)
    stats = dict(paths=len(paths), queries=e.queries, solver_s=round(e.solver_s, 3), wall_s=round(time.time() - t0, 3))
    return out, stats
