"""Helpers for engine-B harnesses over tiny compiled graphs (rex.graph.Graph instances built through the public API)."""
import numpy as np
import z3

from vlib import jx


class Calls:
    """pure_callback handler: every oracle callback returns fresh symbols; the invocation (guard, argument terms) is recorded."""

    def __init__(self):
        self.calls = []

    def handler(self, interp, eqn, args):
        tag = eqn.params["callback"].callback_func.__name__
        k = len(self.calls)
        outs = [interp.sym_like(f"{tag}_c{k}_o{j}", av) for j, av in enumerate(eqn.params["result_avals"])]
        self.calls.append(dict(tag=tag, guard=interp.guard(), args=list(args), outs=outs))
        return outs

    def by_tag(self, tag):
        return [c for c in self.calls if c["tag"] == tag]


_MODES = None


def modes():
    from rex.constants import Supergraph

    return {"mcs": Supergraph.MCS, "topological": Supergraph.TOPOLOGICAL, "generational": Supergraph.GENERATIONAL}


def build(inst, node_cls=None):
    """inst: dict(kind='two'|'three', mode=..., **kwargs) -> (nodes, cgraphs, graph)"""
    from vlib import fixtures

    kw = dict(inst)
    kind = kw.pop("kind", "two")
    mode = modes()[kw.pop("mode", "mcs")]
    if node_cls is not None:
        kw["node_cls"] = node_cls
    if kind == "two":
        return fixtures.two_node_graph(supergraph=mode, **kw)
    if kind == "fanout":
        for k in ("windows", "rates", "delays", "third"):
            if kw.get(k) is not None:
                kw[k] = tuple(kw[k])
        return fixtures.fanout_graph(supergraph=mode, **kw)
    if kind == "sink":
        if kw.get("rates") is not None:
            kw["rates"] = tuple(kw["rates"])
        return fixtures.sink_graph(supergraph=mode, **kw)
    if kind == "random":
        return fixtures.random_graph(supergraph=mode, **kw)
    if kind == "hetero":
        kw["settings"] = [tuple(x) for x in kw["settings"]]
        return fixtures.hetero_graph(supergraph=mode, **kw)
    return fixtures.three_node_graph(supergraph=mode, **kw)


def instances(tier, small=False):
    base = [
        dict(kind="two", rate1=10, rate2=20, window12=2, window21=1, ts_max=0.3),
        dict(kind="two", rate1=20, rate2=10, window12=1, window21=2, ts_max=0.3),
    ]
    if tier == "thorough" and not small:
        base += [
            dict(kind="two", rate1=10, rate2=30, window12=3, window21=1, ts_max=0.3),
            dict(kind="two", rate1=10, rate2=20, window12=2, window21=1, ts_max=0.3, trainable=True, tmax=0.06),
            dict(kind="three", rates=(10, 20, 15), windows=(2, 1, 2), ts_max=0.3),
        ]
    out = []
    for b in base:
        for m in ("mcs", "topological", "generational"):
            d = dict(b)
            d["mode"] = m
            out.append(d)
    return out


def random_instances(tier, quick_n=4):
    """seeded random topologies (fixtures.random_graph): 3-4 nodes, random rates/windows/delays, forward fan-in/fan-out links and a skipped
    feedback link.  (seed 2 with 4 nodes is left out: no reader of the supervisor's output runs inside the compiled horizon and rex's
    Graph.init refuses the instance -- observation O4 in DESIGN.md.)"""
    modes_ = ["mcs", "generational", "topological"]
    if tier != "thorough":
        picks = [(0, 4), (1, 4), (5, 4), (3, 3)][:quick_n]
    else:
        picks = [(s_, n) for s_ in range(24) for n in (3, 4) if (s_, n) != (2, 4)]
    return [dict(kind="random", seed=s_, n_nodes=n, mode=modes_[s_ % 3], ts_max=0.4) for s_, n in picks]


def check_eq(alg, a_tree, b_tree, assumptions=(), timeout=60):
    """(verdict, model, secs, trivial) for 'a_tree == b_tree' leafwise."""
    from vlib import smt

    eq = jx.tree_equal(alg, a_tree, b_tree)
    if eq is True:
        return "unsat", None, 0.0, True
    if eq is False:
        return "sat", None, 0.0, True
    v, m, s = smt.check(list(assumptions), eq, timeout)
    return v, m, s, False


def diff_leaves(alg, a_tree, b_tree, model):
    """names of leaves that differ under model (for reporting)."""
    import jax

    la = jax.tree_util.tree_flatten_with_path(a_tree, is_leaf=lambda x: isinstance(x, jx.SA))[0]
    lb = jax.tree_util.tree_leaves(b_tree, is_leaf=lambda x: isinstance(x, jx.SA))
    out = []
    for (p, a), b in zip(la, lb):
        for x, y in zip(a.flat(), b.flat()):
            vx, vy = jx.model_value(model, x), jx.model_value(model, y)
            if vx != vy:
                out.append((jax.tree_util.keystr(p), str(vx), str(vy)))
                break
    return out


def model_inputs(model, tr, flat):
    """concrete numpy pytree of the traced function's inputs under the model (float32/int32 as in the avals)."""
    import jax

    leaves = []
    for sa, av in zip(flat, tr.in_avals()):
        if jx._is_key_dtype(av.dtype):
            raise NotImplementedError
        arr = np.zeros(av.shape, dtype=av.dtype)
        for idx in np.ndindex(*av.shape):
            v = jx.model_value(model, sa.v[idx])
            arr[idx] = float(v) if np.issubdtype(av.dtype, np.floating) else v
        leaves.append(arr)
    return jax.tree_util.tree_unflatten(tr.in_tree, leaves)


# ---------------------------------------------------------------------------------------------------
# generic "prove, else replay on the real function" for obligations of the form  assumptions(in) => goal(in, f(in))
def _sort_of_kind(k):
    return {"f": z3.RealSort(), "i": z3.IntSort(), "b": z3.BoolSort(), "k": jx.Key}[k]


def placeholders(out_tree, prefix="OUT"):
    """tree of SA with one fresh constant per output cell (so that a goal can be stated over 'the outputs')."""
    import jax

    leaves, td = jax.tree_util.tree_flatten(out_tree, is_leaf=lambda x: isinstance(x, jx.SA))
    new = []
    for li, sa in enumerate(leaves):
        a = jx.obj_array(sa.shape)
        for idx in np.ndindex(*sa.shape):
            a[idx] = z3.Const(f"{prefix}{li}_" + "_".join(map(str, idx)) + f"!{next(jx._fresh_counter)}", _sort_of_kind(sa.kind))
        new.append(jx.SA(a, sa.dtype))
    return jax.tree_util.tree_unflatten(td, new)


def _zval(alg, v, kind):
    if jx.isz(v):
        return v
    if kind == "b":
        return z3.BoolVal(bool(v))
    if kind == "i":
        return z3.IntVal(int(v))
    return z3.RealVal(v)


def _subs_pairs(alg, ph_tree, val_tree):
    import jax

    lp = jax.tree_util.tree_leaves(ph_tree, is_leaf=lambda x: isinstance(x, jx.SA))
    lv = jax.tree_util.tree_leaves(val_tree, is_leaf=lambda x: isinstance(x, jx.SA))
    assert len(lp) == len(lv)
    pairs = []
    for p, v in zip(lp, lv):
        assert tuple(p.shape) == tuple(v.shape), (p.shape, v.shape)
        for a, b in zip(p.flat(), v.flat()):
            pairs.append((a, _zval(alg, b, p.kind)))
    return pairs


def prove_with_replay(name, cfg, it, tr, flat_in, assumptions, goal_builder, key, what, timeout=60, real_fn=None,
                      grid=(-8, 8), out_tree=None):
    """goal_builder(in_tree, out_tree_like) -> z3 Bool over input symbols and the cells of out_tree_like.
    Proves assumptions => goal[out := f(in)]; on a model, runs the real function (eager + jit) on the model's inputs and
    evaluates assumptions/goal on the *actual* inputs and outputs; replayed=True iff the goal is false there."""
    import jax
    from vlib import smt
    from vlib.common import Ob

    in_tree = tr.in_pytree(flat_in)
    out_tree = out_tree if out_tree is not None else tr.run(it, flat_in)
    ph = placeholders(out_tree)
    goal_ph = goal_builder(in_tree, ph)
    if goal_ph is True:
        return Ob(name, "unsat", 0, cfg, trivial=True)
    goal = z3.substitute(goal_ph, *_subs_pairs(it.alg, ph, out_tree))
    v, m, s = smt.check(list(assumptions), goal, timeout)
    if v != "sat":
        return Ob(name, v, s, cfg)
    o = Ob(name, "sat", s, cfg, key=key, what=what)
    try:
        rv = [x for sa in flat_in if sa.kind == "f" for x in sa.flat() if jx.isz(x)]
        m2, den = smt.nice_model(list(assumptions) + [z3.Not(goal)], rv, lo=grid[0], hi=grid[1], timeout_s=20)
        m = m2 or m
        args = model_inputs(m, tr, flat_in)
        fn = real_fn or tr.fn
        reproduced = False
        it2 = jx.Interp()
        in_pairs = []
        conc_in = [it2.from_concrete(l, av.dtype) for l, av in zip(jax.tree_util.tree_leaves(args), tr.in_avals())]
        for sa, ca in zip(flat_in, conc_in):
            for a, b in zip(sa.flat(), ca.flat()):
                if jx.isz(a):
                    in_pairs.append((a, _zval(it.alg, b, sa.kind)))
        for wrap in (lambda f: f, jax.jit):
            real = wrap(fn)(*args)
            rl = jax.tree_util.tree_leaves(real)
            pl = jax.tree_util.tree_leaves(ph, is_leaf=lambda x: isinstance(x, jx.SA))
            conc_out = [it2.from_concrete(np.asarray(r), p.dtype) for r, p in zip(rl, pl)]
            pairs = in_pairs + [(a, _zval(it.alg, b, p.kind)) for p, c in zip(pl, conc_out) for a, b in zip(p.flat(), c.flat())]
            g_c = z3.simplify(z3.substitute(goal_ph, *pairs))
            a_c = z3.simplify(z3.substitute(z3.And(*[smt._b(a) for a in assumptions]) if assumptions else z3.BoolVal(True), *pairs))
            if z3.is_false(g_c) and not z3.is_false(a_c):
                reproduced = True
            elif not z3.is_true(g_c) and not z3.is_false(g_c):
                vv, _, _ = smt.satisfiable([g_c], 10)
                if vv == "unsat":
                    reproduced = True
        o.replayed = reproduced
        o.model = {"inputs": args, "grid_den": den}
    except BaseException as e:  # noqa
        import traceback

        o.replayed = None
        o.detail = f"replay failed: {type(e).__name__}: {e} {traceback.format_exc()[-600:]}"
    return o


# ---------------------------------------------------------------------------------------------------
class UFCalls(Calls):
    """Oracle callbacks as uninterpreted functions of their arguments (a deterministic but arbitrary user step function).
    `override(tag, j, args) -> term or None` lets a harness pin some outputs (e.g. output := E_node(seq))."""

    def __init__(self, override=None):
        super().__init__()
        self.override = override
        self._fn = {}

    def handler(self, interp, eqn, args):
        tag = eqn.params["callback"].callback_func.__name__
        flat_args, sorts = [], []
        for a in args:
            for x in a.flat():
                k = a.kind
                flat_args.append(_zval(interp.alg, x, k))
                sorts.append(_sort_of_kind(k))
        outs = []
        for j, av in enumerate(eqn.params["result_avals"]):
            arr = jx.obj_array(tuple(av.shape))
            kind = jx.kind_of(av.dtype)
            for ci, idx in enumerate(np.ndindex(*av.shape)):
                t = self.override(tag, j, ci, args) if self.override else None
                if t is None:
                    key = (tag, j, ci, tuple(str(s) for s in sorts))
                    if key not in self._fn:
                        self._fn[key] = z3.Function(f"F_{tag}_{j}_{ci}", *sorts, _sort_of_kind(kind))
                    t = self._fn[key](*flat_args)
                arr[idx] = t
            outs.append(jx.SA(arr, av.dtype))
        self.calls.append(dict(tag=tag, guard=interp.guard(), args=list(args), outs=outs))
        return outs


def sel(alg, sa, idx, lo=0):
    """element (sub-array along axis 0) of sa at symbolic index idx (assumed in [0, len))."""
    n = sa.shape[0]
    if not jx.isz(idx):
        return sa[int(idx)]
    out = sa[n - 1].v
    for r in range(n - 2, -1, -1):
        cur = sa[r].v
        out = jx.map2(lambda a, b: alg.ite(idx == r, a, b, sa.kind), cur, out)
    return jx.SA(out, sa.dtype)


def slot_order(g):
    """non-supervisor slots per kind in the order the partition runner executes them, with an execution 'round' index
    (generation index, or scan iteration when the generations are uniform)."""
    from rex.utils import check_generations_uniformity

    tm = g.timings
    sup_slot = g._supervisor_slot
    gens = tm.to_generation()
    uniform = check_generations_uniformity(gens[:-1])
    per_kind = {}
    for gi, gen in enumerate(gens):
        for sname, s in gen.items():
            if sname == sup_slot:
                continue
            per_kind.setdefault(s.kind, []).append((sname, gi))
    if uniform:
        per_kind = {k: [(sn, i) for i, (sn, _) in enumerate(sorted(v, key=lambda x: x[1]))] for k, v in per_kind.items()}
    return per_kind, uniform, len(gens) - 1


def oracle_replay(it, tr, flat, calls, pre, goal, g_ph, ph, grid=(-8, 8)):
    """Replay a counterexample of a harness that uses oracle callbacks: the real function is run on the model's inputs with every
    oracle callback returning the model's value for it; the goal (stated over output placeholders) is then evaluated on the real
    outputs under the model.  True iff the goal is false there (eager and jit)."""
    import jax
    from vlib import fixtures, smt

    try:
        rv = [x for sa in flat if sa.kind == "f" for x in sa.flat() if jx.isz(x)]
        m, den = smt.nice_model(list(pre) + [z3.Not(goal)], rv, lo=grid[0], hi=grid[1], timeout_s=20)
        if m is None:
            return None
        args = model_inputs(m, tr, flat)
        fixtures.ORACLE_RETURNS.clear()
        for c in calls.calls:
            o = c["outs"][0]
            fixtures.ORACLE_RETURNS[c["tag"]] = jx.model_array(m, o, np.bool_ if o.kind == "b" else np.float32 if o.kind == "f" else np.int32)
        reproduced = False
        it2 = jx.Interp()
        pl = jax.tree_util.tree_leaves(ph, is_leaf=lambda x: isinstance(x, jx.SA))
        for wrap in (lambda f: f, jax.jit):
            real = wrap(tr.fn)(*args)
            rl = jax.tree_util.tree_leaves(real)
            pairs = []
            for p_, r_ in zip(pl, rl):
                c_ = it2.from_concrete(np.asarray(r_), p_.dtype)
                pairs += [(a, _zval(it.alg, b, p_.kind)) for a, b in zip(p_.flat(), c_.flat())]
            val = m.eval(z3.substitute(g_ph, *pairs), model_completion=True)
            if z3.is_false(val):
                reproduced = True
        fixtures.ORACLE_RETURNS.clear()
        return reproduced
    except BaseException:  # noqa
        fixtures.ORACLE_RETURNS.clear()
        return None


def decide_oracle(name, cfg, it, tr, flat, calls, out, pre, goal_fn, key, what, timeout=120, abstract=False):
    """goal_fn(out_like) -> z3 Bool (may mention input symbols and the oracle calls' terms)."""
    from vlib import smt
    from vlib.common import Ob

    ph = placeholders(out)
    g_ph = goal_fn(ph)
    goal = z3.substitute(g_ph, *_subs_pairs(it.alg, ph, out))
    if abstract:
        fa = smt.abstract_apps(list(pre) + [goal])
        v, m, s = smt.check(fa[:-1], fa[-1], timeout)
    else:
        v, m, s = smt.check(list(pre), goal, timeout)
    o = Ob(name, v, s, cfg, key=key, what=what)
    if v == "sat":
        o.replayed = oracle_replay(it, tr, flat, calls, pre, goal, g_ph, ph)
    return o
