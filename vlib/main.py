"""Entry point: python -m vlib.main <property-id> [--tier quick|thorough] [--replay path]"""
import argparse
import importlib
import json
import os
import sys
import traceback

from vlib.common import Report, EXIT_HARNESS


def main():
    ap = argparse.ArgumentParser()
    ap.add_argument("pid")
    ap.add_argument("--tier", default=os.environ.get("VERIF_TIER", "quick"))
    ap.add_argument("--replay", default=None)
    a = ap.parse_args()
    pid = a.pid.upper()
    tier = a.tier if a.tier in ("quick", "thorough") else "quick"
    seed = int(os.environ.get("VERIF_SEED", "0") or 0)
    try:
        mod = importlib.import_module(f"props.{pid.lower()}")
    except ModuleNotFoundError as e:
        print(f"no check for {pid}: {e}")
        sys.exit(EXIT_HARNESS)
    if a.replay:
        with open(a.replay) as f:
            rp = json.load(f)
        ok = mod.replay(rp["replay"])
        print("REPRODUCED" if ok else "NOT-REPRODUCED")
        sys.exit(1 if ok else 0)
    rep = Report(pid, tier, seed)
    try:
        mod.run(rep)
    except BaseException as e:  # noqa
        rep.harness_error(f"{type(e).__name__}: {e}\n{traceback.format_exc()[-3000:]}")
    sys.exit(rep.finish())


if __name__ == "__main__":
    main()
