"""Shared plumbing: obligations, evidence, known findings, exit codes, parallel map."""
import hashlib
import inspect
import json
import os
import sys
import time
import traceback
from concurrent.futures import ProcessPoolExecutor, as_completed
import multiprocessing as mp

VERIF = os.path.dirname(os.path.dirname(os.path.abspath(__file__)))
EVID = os.path.join(VERIF, "evidence")
REPLAY_DIR = os.path.join(EVID, "replay")
KNOWN = os.path.join(VERIF, "known_findings.json")

EXIT_OK, EXIT_VIOLATION, EXIT_HARNESS, EXIT_NOREPLAY = 0, 1, 2, 3


def src_hash(obj) -> str:
    """Qualified name + sha1 of the source of a function/class of /repo (evidence: what was encoded)."""
    try:
        src = inspect.getsource(obj)
    except Exception:
        src = repr(obj)
    mod = getattr(obj, "__module__", "?")
    qn = getattr(obj, "__qualname__", getattr(obj, "__name__", repr(obj)))
    return f"{mod}.{qn}@{hashlib.sha1(src.encode()).hexdigest()[:10]}"


def jsonable(x):
    try:
        json.dumps(x)
        return x
    except Exception:
        pass
    if isinstance(x, dict):
        return {str(k): jsonable(v) for k, v in x.items()}
    if isinstance(x, (list, tuple, set)):
        return [jsonable(v) for v in x]
    try:
        import numpy as np

        if isinstance(x, np.ndarray):
            return jsonable(x.tolist())
        if isinstance(x, np.generic):
            return x.item()
    except Exception:
        pass
    try:
        from fractions import Fraction

        if isinstance(x, Fraction):
            return float(x)
    except Exception:
        pass
    return str(x)


class Ob:
    """One discharged (or attempted) obligation, produced by workers (must be picklable/jsonable)."""

    def __init__(self, name, verdict, secs=0.0, cfg=None, detail=None, kind="obligation", model=None, key=None,
                 queries=1, trivial=False, replayed=None, what=None, optional=False):
        # verdict: 'unsat' (holds) | 'sat' (counterexample) | 'unknown' | 'error'
        # kind: 'obligation' | 'vacuity' (expects sat) | 'unwind' | 'selfcheck' | 'expected_sat'
        self.name, self.verdict, self.secs, self.cfg = name, verdict, float(secs), cfg
        self.detail, self.kind, self.model, self.key = detail, kind, model, key
        self.queries, self.trivial = queries, trivial
        self.replayed, self.what = replayed, what  # for verdict 'sat': did the model reproduce on the real code?
        self.optional = optional  # an 'unknown' on an optional obligation is reported and dropped from the claim instead of failing the check

    def to_dict(self):
        return jsonable(self.__dict__)


class Report:
    def __init__(self, pid, tier="quick", seed=0):
        self.pid, self.tier, self.seed = pid, tier, seed
        self.t0 = time.time()
        self.obs = []  # list of Ob dicts
        self.functions = []
        self.bounds = {}
        self.assumptions = []
        self.stubs = []
        self.samples = []
        self.configs = []
        self.notes = []
        self.violations = []  # (key, what, replay_path)
        self.known_hits = []
        self.harness_errors = []
        self.inconclusive = []
        self.noreplay = []
        self.validated = 0  # concrete traces checked against impl (self-validation + replays)
        self.paths = 0
        self.extra = {}
        self.technique = ""
        with open(KNOWN) as f:
            self.known = json.load(f)

    # -- recording ---------------------------------------------------------------------------
    def encode(self, *objs):
        for o in objs:
            h = src_hash(o)
            if h not in self.functions:
                self.functions.append(h)

    def add(self, ob):
        d = ob if isinstance(ob, dict) else ob.to_dict()
        self.obs.append(d)
        k, v = d["kind"], d["verdict"]
        if v == "error":
            self.harness_errors.append(f"{d['name']} cfg={d.get('cfg')}: {d.get('detail')}")
        elif k in ("vacuity", "expected_sat"):
            if v != "sat":
                self.harness_errors.append(f"vacuity/reachability twin not sat: {d['name']} cfg={d.get('cfg')} ({v})")
        elif k in ("obligation", "unwind", "selfcheck"):
            if v == "unknown":
                if d.get("optional"):
                    self.notes.append(f"dropped from the claim (solver budget exhausted, optional obligation): {d['name']} cfg={d.get('cfg')}")
                else:
                    self.inconclusive.append(f"{d['name']} cfg={d.get('cfg')}")
            elif v == "sat":
                if d.get("replayed") is True:
                    self.validated += 1
                    self.violation(d.get("key") or d["name"], d.get("what") or f"{d['name']} fails: {d.get('detail')}",
                                   dict(harness=d["name"], cfg=d.get("cfg"), model=d.get("model"), detail=d.get("detail")))
                else:
                    self.no_replay(d["name"], f"cfg={d.get('cfg')} model={d.get('model')} detail={d.get('detail')}")
        return d

    def add_all(self, obs):
        for o in obs:
            self.add(o)

    def sample(self, s):
        if len(self.samples) < 12:
            self.samples.append(jsonable(s))

    def harness_error(self, msg):
        self.harness_errors.append(msg)

    # -- violations --------------------------------------------------------------------------
    def is_known(self, key):
        for f in self.known.get("findings", []):
            if f["property"] == self.pid and f["key"] == key:
                return f
        return None

    def violation(self, key, what, replay_obj):
        """Call only for counterexamples that were REPLAYED on the real code and reproduced."""
        kf = self.is_known(key)
        if kf is not None:
            if key not in [k for k, _ in self.known_hits]:
                self.known_hits.append((key, kf["what"]))
            return
        if key in [k for k, _, _ in self.violations]:
            return  # one report per distinct failing key
        os.makedirs(REPLAY_DIR, exist_ok=True)
        path = os.path.join(REPLAY_DIR, f"{self.pid}_{len(self.violations)}.json")
        with open(path, "w") as f:
            json.dump(jsonable(dict(property=self.pid, key=key, what=what, replay=replay_obj)), f, indent=1)
        self.violations.append((key, what, path))

    def no_replay(self, name, detail):
        self.noreplay.append(f"{name}: {detail}")

    # -- finish ------------------------------------------------------------------------------
    def finish(self):
        wall = time.time() - self.t0
        real_obs = [o for o in self.obs if o["kind"] in ("obligation", "unwind")]
        n_q = sum(int(o.get("queries") or 1) for o in self.obs)
        verd = {}
        for o in self.obs:
            verd[o["verdict"]] = verd.get(o["verdict"], 0) + 1
        distinct = len({(o["name"], json.dumps(o.get("cfg"), sort_keys=True, default=str)) for o in real_obs
                        if not o.get("trivial")})
        solver_s = sum(o["secs"] for o in self.obs)
        for o in real_obs[:6]:
            self.sample({"obligation": o["name"], "cfg": o.get("cfg"), "verdict": o["verdict"],
                         "solver_s": round(o["secs"], 3), "detail": o.get("detail")})
        cov = {
            "evaluations": max(n_q, 1) if self.obs else 0,
            "distinct_nontrivial": distinct,
            "rule": "one evaluation = one SMT query discharged by z3 on a term generated from /repo's live code this run; "
                    "distinct_nontrivial counts distinct (obligation, configuration) pairs whose verdict needed a solver call "
                    "(syntactically closed ones are flagged trivial and not counted)",
            "samples": self.samples or [{"note": "no obligations ran"}],
            # bounded-symbolic reading of the model_checking keys: a "state" is one symbolic state explored (a configuration's fully symbolic
            # input state, or one feasible path condition of engine A); a "transition" is one solver query (or term-identity decision)
            # discharged over such a state
            "states": max(1, self.paths + len({json.dumps(o.get("cfg"), sort_keys=True, default=str) for o in self.obs})),
            "transitions": max(1, n_q),
            "explanation": self.technique,
            "functions_encoded": self.functions,
            "bounds": self.bounds,
            "configurations": self.configs[:200],
            "n_configurations": len(self.configs),
            "stubs": self.stubs,
            "queries_by_verdict": verd,
            "obligations": len(real_obs),
            "discharged": len([o for o in real_obs if o["verdict"] == "unsat"]),
            "vacuity_twins": [{"name": o["name"], "cfg": o.get("cfg"), "verdict": o["verdict"]}
                              for o in self.obs if o["kind"] in ("vacuity", "expected_sat")][:60],
            "solver_s": round(solver_s, 3),
            "paths_explored": self.paths,
            "traces_validated_against_impl": self.validated,
            "inconclusive": self.inconclusive,
            "harness_errors": self.harness_errors,
            "known_findings_hit": [k for k, _ in self.known_hits],
            "notes": self.notes,
            "exhaustive": False,
        }
        cov.update(self.extra)
        ev = {
            "property_id": self.pid,
            "tier": self.tier,
            "seed": int(self.seed),
            "level": "model_checking",
            "coverage": jsonable(cov),
            "assumptions": self.assumptions,
            "wall_s": round(wall, 2),
            "violations": len(self.violations),
        }
        os.makedirs(EVID, exist_ok=True)
        with open(os.path.join(EVID, f"{self.pid}.json"), "w") as f:
            json.dump(ev, f, indent=1)
        for key, what in self.known_hits:
            print(f"KNOWN-FINDING: property={self.pid} {what} [key={key}]")
        for key, what, path in self.violations:
            print(f"VIOLATION property={self.pid} replay={path}")
            print(f"  what: {what} [key={key}]")
        print(f"[{self.pid}] tier={self.tier} obligations={len(real_obs)} discharged={cov['discharged']} "
              f"queries={n_q} verdicts={verd} solver_s={solver_s:.1f} wall_s={wall:.1f}")
        if self.violations:
            return EXIT_VIOLATION
        if self.noreplay:
            for m in self.noreplay:
                print(f"MODEL-DID-NOT-REPLAY: {m}")
            return EXIT_NOREPLAY
        if self.harness_errors or self.inconclusive:
            for m in self.harness_errors:
                print(f"HARNESS-ERROR: {m}")
            for m in self.inconclusive:
                print(f"INCONCLUSIVE: {m}")
            return EXIT_HARNESS
        if not real_obs:
            print("HARNESS-ERROR: no obligations")
            return EXIT_HARNESS
        return EXIT_OK


def _worker(modname, fname, cfg, tier):
    import importlib

    os.environ.setdefault("JAX_PLATFORMS", "cpu")
    t0 = time.time()
    try:
        mod = importlib.import_module(modname)
        res = getattr(mod, fname)(cfg, tier)
        return [r.to_dict() if isinstance(r, Ob) else r for r in res]
    except BaseException as e:  # noqa
        tb = traceback.format_exc()
        return [Ob(f"{fname}", "error", time.time() - t0, cfg=cfg, detail=f"{type(e).__name__}: {e}\n{tb[-1500:]}").to_dict()]


def pmap(modname, fname, cfgs, tier, nproc=None, serial=False):
    """Run module.fname(cfg, tier) for every cfg in separate processes; returns flat list of Ob dicts."""
    nproc = nproc or min(int(os.environ.get("VERIF_NPROC", "14")), max(1, len(cfgs)))
    out = []
    if serial or nproc <= 1 or len(cfgs) <= 1 or os.environ.get("VERIF_SERIAL"):
        for c in cfgs:
            out.extend(_worker(modname, fname, c, tier))
        return out
    ctx = mp.get_context("spawn")
    with ProcessPoolExecutor(max_workers=nproc, mp_context=ctx) as ex:
        futs = {ex.submit(_worker, modname, fname, c, tier): c for c in cfgs}
        t0 = time.time()
        for f in as_completed(futs):
            if os.environ.get("VERIF_PROGRESS"):
                print(f"[progress] {fname} {time.time() - t0:.0f}s {futs[f]}", file=sys.stderr, flush=True)
            try:
                out.extend(f.result())
            except BaseException as e:  # noqa
                out.append(Ob(fname, "error", 0, cfg=futs[f], detail=f"worker died: {e}").to_dict())
    return out
