"""Self-validation of engine B: the interpreter, fed numerals, must agree with real JAX on the repo's own functions."""
import sys
import time
from fractions import Fraction

import numpy as np


def compare(real_tree, sa_tree, tol=2e-4, where=""):
    import jax
    from vlib.jx import SA, isz, to_float, _is_key_dtype

    lr = jax.tree_util.tree_leaves(real_tree)
    ls = jax.tree_util.tree_leaves(sa_tree, is_leaf=lambda x: isinstance(x, SA))
    assert len(lr) == len(ls), (where, len(lr), len(ls))
    worst = 0.0
    for i, (r, s) in enumerate(zip(lr, ls)):
        if hasattr(r, "dtype") and _is_key_dtype(r.dtype):
            r = np.asarray(jax.random.key_data(r))
            continue
        r = np.asarray(r)
        assert tuple(r.shape) == tuple(s.shape), (where, i, r.shape, s.shape)
        for idx in np.ndindex(*r.shape):
            x = s.v[idx]
            if isz(x):
                import z3

                x = to_float(z3.simplify(x))
            rv = r[idx].item()
            if isinstance(rv, float) and (np.isnan(rv)):
                continue
            if isinstance(rv, bool) or isinstance(x, bool):
                assert bool(rv) == bool(x), (where, i, idx, rv, x)
                continue
            if isinstance(rv, float) and np.isinf(rv):
                assert abs(x) >= 1e11, (where, i, idx, rv, x)
                continue
            d = abs(float(x) - float(rv))
            scale = max(1.0, abs(float(rv)))
            assert d <= tol * scale, f"{where}: leaf {i} idx {idx}: jax={rv} interp={float(x)}"
            worst = max(worst, d / scale)
    return worst


def run_case(name, fn, *args, tol=2e-4, **ikw):
    import jax
    from vlib.jx import Interp, Traced

    t0 = time.time()
    tr = Traced(fn, *args)
    it = Interp(**ikw)
    out = tr.run(it, tr.concrete_inputs(it))
    real = fn(*args)
    w = compare(real, out, tol=tol, where=name)
    return dict(case=name, eqns=tr.n_eqns, worst_rel_err=w, secs=round(time.time() - t0, 2))


def all_cases(quick=True):
    import jax
    import jax.numpy as jnp
    from distrax import Deterministic
    from rex import utils
    from rex.base import InputState, TrainableDist
    from rex.constants import Supergraph
    from vlib import fixtures

    res = []
    modes = [Supergraph.MCS] if quick else [Supergraph.MCS, Supergraph.TOPOLOGICAL, Supergraph.GENERATIONAL]
    for mode in modes:
        for trainable in ([True] if quick else [False, True]):
            nodes, cg, g = fixtures.two_node_graph(trainable=trainable, supergraph=mode, num_episodes=2)
            gs = g.init(jax.random.PRNGKey(1))
            tag = f"{mode.name}/{'tr' if trainable else 'st'}"
            res.append(run_case(f"Graph.run[{tag}]", g.run, gs))
            gs2 = g.run(g.run(gs))
            res.append(run_case(f"Graph.run@2[{tag}]", g.run, gs2))
            res.append(run_case(f"Graph.rollout3[{tag}]", lambda s: g.rollout(s, max_steps=3), gs))
            if not quick or trainable:
                res.append(run_case(f"Graph.reset+step[{tag}]", lambda s: g.step(g.reset(s)[0]), gs))
                gsr = g.init_record(gs, params=True, rng=True, inputs=True, state=True, output=True)
                res.append(run_case(f"Graph.run+record[{tag}]", lambda s: g.run(g.run(s)), gsr))
            res.append(run_case(f"apply_window[{tag}]", lambda gr: utils.apply_window(nodes, gr), cg))
    # apply_delay in the three modes, incl. out-of-range situations
    for interp in ["zoh", "linear", "linear_real_only"]:
        dd = TrainableDist.create(0.013, 0.0, 0.03, interp=interp)
        W, ext = 2, dd.window(100)
        n = W + ext
        rng = np.random.RandomState(3)
        for trial in range(3 if quick else 8):
            seq = np.arange(5 - n + trial, 5 + trial, dtype=np.int32)
            seq = np.where(seq < 0, -1, seq).astype(np.int32)
            ts_sent = np.where(seq < 0, 0.0, seq * 0.01 + rng.uniform(0, 0.004, n)).astype(np.float32)
            ts_sent = np.sort(ts_sent).astype(np.float32)
            ts_recv = ts_sent.copy()
            data = fixtures.POutput(y=rng.uniform(-1, 1, (n, 2)).astype(np.float32))
            ins = InputState.from_outputs(seq, ts_sent, ts_recv, data, delay_dist=dd, is_data=True)
            ts_start = np.float32(ts_sent[-1] + rng.uniform(-0.02, 0.02))
            res.append(run_case(f"apply_delay[{interp}#{trial}]", lambda i, t: i.delay_dist.apply_delay(100, i, t), ins, ts_start))
    # CEM
    from rex import cem

    if hasattr(cem, "cem_update_mean_stdev"):
        pass
    return res


def main(quick=True):
    t0 = time.time()
    res = all_cases(quick)
    for r in res:
        print(r)
    print(f"selftest_b: {len(res)} cases agree with JAX, {time.time()-t0:.1f}s")
    return res


if __name__ == "__main__":
    main(quick="--full" not in sys.argv)
