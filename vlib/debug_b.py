"""Debug aid: find the first jaxpr equation where the interpreter (on numerals) disagrees with real JAX."""
import numpy as np
import jax
from jax.extend.core import Literal
from vlib.jx import Interp, SA, isz, to_float, _is_key_dtype


def _close(real, sa, tol=1e-4):
    r = np.asarray(real) if not (_is_key_dtype(real.dtype)) else None
    if r is None:
        return True
    if tuple(r.shape) != tuple(sa.shape):
        return False
    for idx in np.ndindex(*r.shape):
        x = sa.v[idx]
        if isz(x):
            import z3
            try:
                x = to_float(z3.simplify(x))
            except Exception:
                continue
        rv = r[idx].item()
        if isinstance(rv, float) and (np.isnan(rv) or np.isinf(rv)):
            continue
        if abs(float(x) - float(rv)) > tol * max(1.0, abs(float(rv))):
            return False
    return True


def first_mismatch(jaxpr, consts, args, depth=0, it=None):
    it = it or Interp()
    env_r, env_s = {}, {}

    def rd(v, env):
        if isinstance(v, Literal):
            return v.val if env is env_r else it.from_concrete(np.asarray(v.val), v.aval.dtype)
        return env[v]

    for v, c in zip(jaxpr.constvars, consts):
        env_r[v] = c; env_s[v] = it.from_concrete(c)
    for v, a in zip(jaxpr.invars, args):
        env_r[v] = a; env_s[v] = it.from_concrete(a, v.aval.dtype)
    for n, eqn in enumerate(jaxpr.eqns):
        inr = [rd(v, env_r) for v in eqn.invars]
        ins = [rd(v, env_s) for v in eqn.invars]
        subfuns, bind_params = eqn.primitive.get_bind_params(eqn.params)
        outr = eqn.primitive.bind(*subfuns, *inr, **bind_params)
        if not eqn.primitive.multiple_results:
            outr = [outr]
        fn = getattr(it, "p_" + eqn.primitive.name.replace("-", "_"))
        outs = fn(eqn, *ins)
        if not isinstance(outs, (list, tuple)):
            outs = [outs]
        for j, (r, s) in enumerate(zip(outr, outs)):
            if not isinstance(s, SA):
                s = SA(s, eqn.outvars[j].aval.dtype)
            if not _close(r, s):
                print("  " * depth + f"MISMATCH at eqn {n}: {eqn.primitive.name} out {j}")
                print("  " * depth + f"  params: { {k: (v if not hasattr(v,'jaxpr') else '<jaxpr>') for k,v in eqn.params.items()} }")
                if eqn.primitive.name == "scan":
                    pr = eqn.params
                    nc, ncar = pr["num_consts"], pr["num_carry"]
                    cj = pr["jaxpr"]
                    consts_, carry, xs = inr[:nc], list(inr[nc:nc+ncar]), inr[nc+ncar:]
                    for t in range(pr["length"]):
                        xt = [x[t] for x in xs]
                        print("  " * depth + f"  scan iteration {t}")
                        r_ = first_mismatch(cj.jaxpr, cj.consts, list(consts_) + carry + xt, depth + 1, it)
                        if r_ is not None:
                            return r_
                        outs_ = jax.core.eval_jaxpr(cj.jaxpr, cj.consts, *(list(consts_) + carry + xt))
                        carry = list(outs_[:ncar])
                    return eqn
                for a_r in inr:
                    a_r = np.asarray(a_r) if not hasattr(a_r, 'dtype') else a_r
                    print("  " * depth + f"  in: {np.asarray(a_r) if not _is_key_dtype(a_r.dtype) else a_r}")
                print("  " * depth + f"  jax: {np.asarray(r)}")
                print("  " * depth + f"  interp: {s.v}")
                for key in ("jaxpr", "call_jaxpr"):
                    if key in eqn.params and hasattr(eqn.params[key], "jaxpr"):
                        cj = eqn.params[key]
                        return first_mismatch(cj.jaxpr, cj.consts, inr, depth + 1, it)
                if eqn.primitive.name == "cond":
                    idx = int(np.asarray(inr[0]))
                    cj = eqn.params["branches"][idx]
                    return first_mismatch(cj.jaxpr, cj.consts, inr[1:], depth + 1, it)
                return eqn
        for v, r, s in zip(eqn.outvars, outr, outs):
            env_r[v] = r
            env_s[v] = s if isinstance(s, SA) else SA(s, v.aval.dtype)
    print("  " * depth + "no mismatch at this level")
    return None


def debug(fn, *args):
    closed = jax.make_jaxpr(fn)(*args)
    leaves = jax.tree_util.tree_leaves(args)
    return first_mismatch(closed.jaxpr, closed.consts, leaves)
