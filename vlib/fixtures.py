"""Small node graphs built through rex's public API, used by engine-B harnesses and self-validation."""
from typing import Tuple

import jax
import jax.numpy as jnp
import numpy as onp
from flax import struct

from rex.base import Base, GraphState, StepState
from rex.node import BaseNode


@struct.dataclass
class PParams(Base):
    a: jax.Array


@struct.dataclass
class PState(Base):
    x: jax.Array


@struct.dataclass
class POutput(Base):
    y: jax.Array


class ProbeNode(BaseNode):
    """Deterministic node whose output depends on everything it is handed (state, params, seq, ts, every window entry)."""

    OUT_SHAPE = ()

    def init_params(self, rng=None, graph_state=None):
        return PParams(a=jnp.array(0.5, dtype=jnp.float32))

    def init_state(self, rng=None, graph_state=None):
        return PState(x=jnp.array(0.25, dtype=jnp.float32))

    def init_output(self, rng=None, graph_state=None):
        return POutput(y=-jnp.ones(self.OUT_SHAPE, dtype=jnp.float32))

    def step(self, step_state: StepState) -> Tuple[StepState, POutput]:
        s = step_state.state.x * step_state.params.a + step_state.ts + step_state.seq.astype(jnp.float32) * 0.125
        for name, inp in step_state.inputs.items():
            w = jnp.arange(1, inp.seq.shape[0] + 1, dtype=jnp.float32)
            wy = w.reshape((-1,) + (1,) * (inp.data.y.ndim - 1))
            s = s + jnp.sum(inp.data.y * wy) + jnp.sum(inp.ts_recv * w) * 0.5 + jnp.sum(inp.seq.astype(jnp.float32) * w) * 0.0625
            s = s + jnp.sum(inp.ts_sent * w) * 0.25
        new_state = PState(x=s)
        return step_state.replace(state=new_state), POutput(y=s * jnp.ones(self.OUT_SHAPE, dtype=jnp.float32))


class ProbeNodeVec(ProbeNode):
    OUT_SHAPE = (2,)


class ProbeNodeRng(ProbeNode):
    """ProbeNode that also *consumes and advances* its rng, as a stochastic policy does: the returned step state carries split(rng)[0] and the
    value depends on bits drawn from split(rng)[1]."""

    def step(self, step_state: StepState) -> Tuple[StepState, POutput]:
        new_rng, sub = jax.random.split(step_state.rng)
        noise = jax.random.bits(sub, (), jnp.uint32).astype(jnp.float32) * jnp.float32(2.0 ** -32)
        ss, out = super().step(step_state)
        x = ss.state.x + noise
        return ss.replace(rng=new_rng, state=PState(x=x)), POutput(y=out.y + noise)


ORACLE_RETURNS = {}  # callback name -> value to return (set by replays so that the real run sees the solver model's oracle results)
CALL_LOG = []  # host-side trace written by the oracle callbacks when the real code is run concretely (replays)


def oracle_callback(tag, shape=(), dtype=jnp.float32):
    """A jax.pure_callback the interpreter maps to symbols; concretely it logs the call and returns a deterministic
    function of its arguments (so that replays are reproducible)."""

    def _cb(*args):
        CALL_LOG.append((f"oracle_{tag}", [onp.asarray(a) for a in args]))
        if f"oracle_{tag}" in ORACLE_RETURNS:
            return onp.asarray(ORACLE_RETURNS[f"oracle_{tag}"], dtype=dtype).reshape(shape)
        h = (sum(ord(ch) for ch in tag) % 17) * 0.0625  # different oracles are different functions
        for i, a in enumerate(args):
            h += float(onp.sum(onp.asarray(a, dtype=onp.float64))) * (0.5 + 0.25 * i + (sum(ord(ch) for ch in tag) % 5) * 0.125)
        return (onp.arange(1, int(onp.prod(shape)) + 1, dtype=onp.float64).reshape(shape) * 0.125 + h).astype(dtype)

    _cb.__name__ = f"oracle_{tag}"
    return _cb


class OracleNode(BaseNode):
    """Node whose new state and output are arbitrary (oracle) values; used so that payloads are free symbols.
    The callback receives (seq, ts, state, all window data) so the interpreter can record what the step was handed."""

    def init_params(self, rng=None, graph_state=None):
        return PParams(a=jnp.array(0.5, dtype=jnp.float32))

    def init_state(self, rng=None, graph_state=None):
        return PState(x=jnp.array(0.25, dtype=jnp.float32))

    def init_output(self, rng=None, graph_state=None):
        return POutput(y=jnp.array(-1.0, dtype=jnp.float32))

    def step(self, step_state: StepState) -> Tuple[StepState, POutput]:
        args = [step_state.seq, step_state.ts, step_state.state.x, step_state.eps]
        for name in sorted(step_state.inputs.keys()):
            inp = step_state.inputs[name]
            args += [inp.seq, inp.ts_sent, inp.ts_recv, inp.data.y]
        cb = oracle_callback(f"step_{self.name}", (2,), jnp.float32)
        from jax.experimental import io_callback

        # io_callback: a genuine side effect (XLA neither de-duplicates nor drops it), like a user's host-side counter
        res = io_callback(cb, jax.ShapeDtypeStruct((2,), jnp.float32), *args)
        return step_state.replace(state=PState(x=res[0])), POutput(y=res[1])


class OracleNodeRng(OracleNode):
    """OracleNode that also advances its rng (returns split(rng)[0]) and reports the rng it was handed as the *last* callback argument,
    so that harnesses can decide which key every executed step saw."""

    def step(self, step_state: StepState) -> Tuple[StepState, POutput]:
        args = [step_state.seq, step_state.ts, step_state.state.x, step_state.eps]
        for name in sorted(step_state.inputs.keys()):
            inp = step_state.inputs[name]
            args += [inp.seq, inp.ts_sent, inp.ts_recv, inp.data.y]
        args.append(step_state.rng)
        cb = oracle_callback(f"step_{self.name}", (2,), jnp.float32)
        from jax.experimental import io_callback

        res = io_callback(cb, jax.ShapeDtypeStruct((2,), jnp.float32), *args)
        return step_state.replace(rng=jax.random.split(step_state.rng)[0], state=PState(x=res[0])), POutput(y=res[1])


def _ragged(nodes, ts_maxes, seed):
    """a padded stack of episodes of different length (base.Graph.stack pads the shorter ones with -1 vertices/edges)"""
    from rex.artificial import generate_graphs
    from rex.base import Graph as CG

    eps = [generate_graphs(nodes, t, rng=jax.random.PRNGKey(seed + i), num_episodes=1)[0] for i, t in enumerate(ts_maxes)]
    return CG.stack(eps)


def two_node_graph(rate1=10, rate2=20, window12=2, window21=1, trainable=False, ts_max=0.5, num_episodes=1, ragged=None,
                   supergraph=None, node_cls=ProbeNode, tmax=0.06, seed=0, delay1=0.0103, delay2=0.0071, comm=0.0037,
                   tdelay=0.0047, **gkw):
    """node2 -> node1 (supervisor node1), node1 -> node2 (skip)."""
    from distrax import Deterministic
    from rex.artificial import generate_graphs
    from rex.base import TrainableDist
    from rex.constants import Supergraph
    from rex.graph import Graph

    n1 = node_cls(name="node1", rate=rate1, delay_dist=Deterministic(delay1))
    n2 = node_cls(name="node2", rate=rate2, delay_dist=Deterministic(delay2))
    nodes = {n.name: n for n in [n1, n2]}
    dd = TrainableDist.create(tdelay, 0.0, tmax) if trainable else Deterministic(comm)
    n1.connect(n2, window=window12, blocking=False, delay_dist=dd, delay=(tdelay if trainable else comm) + 0.00031)  # expected delay != actual: no exact ties
    n2.connect(n1, window=window21, blocking=False, skip=True, delay_dist=Deterministic(comm))
    cg = _ragged(nodes, ragged, seed) if ragged else generate_graphs(nodes, ts_max, rng=jax.random.PRNGKey(seed), num_episodes=num_episodes)
    g = Graph(nodes=nodes, supervisor=n1, graphs_raw=cg, supergraph=supergraph or Supergraph.MCS, progress_bar=False, **gkw)
    return nodes, cg, g


def three_node_graph(rates=(10, 20, 15), windows=(2, 1, 2), ts_max=0.4, num_episodes=1, ragged=None, supergraph=None,
                     node_cls=ProbeNode, seed=0, **gkw):
    """sensor(n2) -> agent(n1, supervisor) -> actuator(n3) -> sensor(n2) (skip)"""
    from distrax import Deterministic
    from rex.artificial import generate_graphs
    from rex.constants import Supergraph
    from rex.graph import Graph

    n1 = node_cls(name="node1", rate=rates[0], delay_dist=Deterministic(0.01))
    n2 = node_cls(name="node2", rate=rates[1], delay_dist=Deterministic(0.005))
    n3 = node_cls(name="node3", rate=rates[2], delay_dist=Deterministic(0.02))
    nodes = {n.name: n for n in [n1, n2, n3]}
    n1.connect(n2, window=windows[0], blocking=False, delay_dist=Deterministic(0.004))
    n3.connect(n1, window=windows[1], blocking=False, delay_dist=Deterministic(0.003))
    n2.connect(n3, window=windows[2], blocking=False, skip=True, delay_dist=Deterministic(0.002))
    cg = _ragged(nodes, ragged, seed) if ragged else generate_graphs(nodes, ts_max, rng=jax.random.PRNGKey(seed), num_episodes=num_episodes)
    g = Graph(nodes=nodes, supervisor=n1, graphs_raw=cg, supergraph=supergraph or Supergraph.MCS, progress_bar=False, **gkw)
    return nodes, cg, g


def fanout_graph(windows=(4, 1), rates=(20, 10, 10), delays=(0.004, 0.004), third=None, ts_max=0.5, num_episodes=1, supergraph=None, node_cls=ProbeNode, seed=0, **gkw):
    """one producer feeding several consumers that need different ring depths:
    prod(node2) -> alpha(node3, window windows[0]) -> sup(node1, supervisor) and prod(node2) -> sup(node1, window windows[1]);
    optionally a third consumer beta(node4, window third[0], rate third[1]) -> sup.  The producer's buffer must cover its *deepest* reader."""
    from distrax import Deterministic as D
    from rex.artificial import generate_graphs
    from rex.constants import Supergraph
    from rex.graph import Graph

    prod = node_cls(name="node2", rate=rates[0], delay_dist=D(0.003))
    alpha = node_cls(name="node3", rate=rates[1], delay_dist=D(0.005))
    sup = node_cls(name="node1", rate=rates[2], delay_dist=D(0.005))
    nodes = {"node2": prod, "node3": alpha, "node1": sup}
    alpha.connect(prod, window=windows[0], blocking=False, delay_dist=D(delays[0]))
    sup.connect(prod, window=windows[1], blocking=False, delay_dist=D(delays[1]))
    sup.connect(alpha, window=1, blocking=False, delay_dist=D(0.002))
    if third:
        beta = node_cls(name="node4", rate=third[1], delay_dist=D(0.004))
        nodes["node4"] = beta
        beta.connect(prod, window=third[0], blocking=False, delay_dist=D(0.006))
        sup.connect(beta, window=1, blocking=False, delay_dist=D(0.002))
    cg = generate_graphs(nodes, ts_max, rng=jax.random.PRNGKey(seed), num_episodes=num_episodes)
    g = Graph(nodes=nodes, supervisor=sup, graphs_raw=cg, supergraph=supergraph or Supergraph.MCS, progress_bar=False, **gkw)
    return nodes, cg, g


def sink_graph(rates=(10, 20, 10), ts_max=0.4, num_episodes=1, supergraph=None, node_cls=ProbeNode, seed=0, **gkw):
    """sensor(node2) -> agent(node1, supervisor) -> logger(node3): the logger only consumes, it is not an ancestor of the supervisor and is
    left out of the supergraph by the default prune=True."""
    from distrax import Deterministic as D
    from rex.artificial import generate_graphs
    from rex.constants import Supergraph
    from rex.graph import Graph

    n1 = node_cls(name="node1", rate=rates[0], delay_dist=D(0.01))
    n2 = node_cls(name="node2", rate=rates[1], delay_dist=D(0.005))
    n3 = node_cls(name="node3", rate=rates[2], delay_dist=D(0.002))
    nodes = {n.name: n for n in [n1, n2, n3]}
    n1.connect(n2, window=2, blocking=False, delay_dist=D(0.004))
    n3.connect(n1, window=1, blocking=False, delay_dist=D(0.003))
    cg = generate_graphs(nodes, ts_max, rng=jax.random.PRNGKey(seed), num_episodes=num_episodes)
    g = Graph(nodes=nodes, supervisor=n1, graphs_raw=cg, supergraph=supergraph or Supergraph.MCS, progress_bar=False, **gkw)
    return nodes, cg, g


def random_graph(seed=0, n_nodes=3, ts_max=0.4, num_episodes=1, supergraph=None, node_cls=ProbeNode, **gkw):
    """seeded random topology: node1 is the supervisor; every node k > 1 feeds at least one lower-numbered node (so everything is an ancestor
    of the supervisor), extra forward links and one skipped feedback link are drawn at random; rates, windows and delays are drawn from small sets."""
    import random as _r

    from distrax import Deterministic as D
    from rex.artificial import generate_graphs
    from rex.constants import Supergraph
    from rex.graph import Graph

    rnd = _r.Random(seed)
    rates = [rnd.choice([5, 10, 15, 20, 30]) for _ in range(n_nodes)]
    nodes = {}
    for k in range(n_nodes):
        nodes[f"node{k + 1}"] = node_cls(name=f"node{k + 1}", rate=rates[k], delay_dist=D(rnd.choice([0.002, 0.005, 0.01, 0.02])))
    names = list(nodes)
    for k in range(1, n_nodes):
        targets = {rnd.randrange(0, k)} | {t for t in range(0, k) if rnd.random() < 0.3}
        for t in sorted(targets):
            nodes[names[t]].connect(nodes[names[k]], window=rnd.choice([1, 1, 2, 3]), blocking=False, delay_dist=D(rnd.choice([0.001, 0.004, 0.03, 0.11])))
    if n_nodes >= 2 and rnd.random() < 0.7:
        nodes[names[n_nodes - 1]].connect(nodes[names[0]], window=rnd.choice([1, 2]), blocking=False, skip=True, delay_dist=D(0.003))
    cg = generate_graphs(nodes, ts_max, rng=jax.random.PRNGKey(seed), num_episodes=num_episodes)
    g = Graph(nodes=nodes, supervisor=nodes["node1"], graphs_raw=cg, supergraph=supergraph or Supergraph.MCS, progress_bar=False, **gkw)
    return nodes, cg, g


def hetero_graph(settings, supergraph=None, node_cls=ProbeNode, ts_max=0.6, **gkw):
    """p (20 Hz) -> x (10 Hz) -> s (10 Hz, supervisor) plus a direct link p -> s; one episode per (x_phase_delay, direct_delay)
    setting, concatenated into a multi-episode graph whose episodes have *different* schedules (as stacked recordings have)."""
    import jax
    import jax.numpy as jnp
    from distrax import Deterministic as D
    from rex.artificial import generate_graphs
    from rex.constants import Supergraph
    from rex.graph import Graph

    def make(x_phase_delay, direct_delay):
        p = node_cls(name="node2", rate=20, delay_dist=D(0.005))
        x = node_cls(name="node3", rate=10, delay_dist=D(0.005))
        s_ = node_cls(name="node1", rate=10, delay_dist=D(0.005))
        x.connect(p, window=1, blocking=False, delay_dist=D(0.004), delay=x_phase_delay)
        s_.connect(x, window=1, blocking=False, delay_dist=D(0.004), delay=0.005)
        s_.connect(p, window=1, blocking=False, delay_dist=D(direct_delay), delay=0.005)
        return {"node2": p, "node3": x, "node1": s_}

    eps = []
    nodes = None
    for st in settings:
        nd = make(*st)
        nodes = nodes or nd
        eps.append(generate_graphs(nd, ts_max, num_episodes=1))
    graphs = jax.tree_util.tree_map(lambda *a: jnp.concatenate(a, axis=0), *eps)
    g = Graph(nodes=nodes, supervisor=nodes["node1"], graphs_raw=graphs, supergraph=supergraph or Supergraph.MCS, progress_bar=False, **gkw)
    return nodes, graphs, g
