#!/bin/bash
# Build the overlay venv used by every check. Offline, idempotent.
set -e
cd "$(dirname "$0")"
export PIP_NO_INDEX=1
if [ ! -x .venv/bin/python ] || ! .venv/bin/python -c "import z3, crosshair" 2>/dev/null; then
  rm -rf .venv
  /venv/bin/python -m venv .venv
  SP=$(.venv/bin/python -c "import sysconfig; print(sysconfig.get_paths()['purelib'])")
  echo "import site; site.addsitedir('/venv/lib/python3.12/site-packages')" > "$SP/_venv_overlay.pth"
  .venv/bin/pip install -q --no-index --find-links /opt/veriftools/wheels z3-solver crosshair-tool >/dev/null 2>&1 || \
  .venv/bin/pip install --no-index --find-links /opt/veriftools/wheels z3-solver crosshair-tool
fi
.venv/bin/python -c "import z3; print('z3', z3.get_version_string())"
