#!/bin/bash
# helper: run a python module/script inside the check environment
cd /verif
export JAX_PLATFORMS=cpu PYTHONPATH=/verif:/repo:/repo/tests/unit PYTHONDONTWRITEBYTECODE=1 REX_VERIF=1 TF_CPP_MIN_LOG_LEVEL=3
exec .venv/bin/python -W ignore "$@" 2> >(grep -v -e "C-API" -e "xla_bridge.py" -e "jax_cuda12_plugin" -e "xla_cuda12" -e "register_custom_type" -e "warnings.warn" -e "plugin_module.initialize" -e "xla_client.register" -e "\^\^\^\^\^\^\^\^\^\^" -e "Jax plugin configuration error" >&2)
