#!/bin/bash
# tools/eval_seed.sh <worktree-id> <seed-name> <check ids...>   -- confirm a sub-agent's mutant and run our checks against it
WT=/tmp/wt/$1; NAME=$2; shift 2
cd $WT || exit 9
DEMO=$(ls demo_*.py | head -1)
export JAX_PLATFORMS=cpu
git diff -- rex > /tmp/wt/_cur.diff
[ -s /tmp/wt/_cur.diff ] || { [ -s patch.diff ] && git apply patch.diff; git diff -- rex > /tmp/wt/_cur.diff; }
PYTHONPATH=$WT timeout 600 /venv/bin/python $DEMO > /tmp/wt/_demo_with.log 2>&1; RC_WITH=$?
git stash -q
PYTHONPATH=$WT timeout 600 /venv/bin/python $DEMO > /tmp/wt/_demo_without.log 2>&1; RC_WITHOUT=$?
git stash pop -q
echo "demo with change rc=$RC_WITH, without rc=$RC_WITHOUT"
mkdir -p /verif/seeded/$NAME
cp /tmp/wt/_cur.diff /verif/seeded/$NAME/patch.diff
cp $DEMO /verif/seeded/$NAME/
# the checks are pointed at the scratch worktree (REX_REPO) with the change applied: /repo itself is never touched, so this can run while
# a thorough run or `vp check` reads /repo
[ -z "$(git -C $WT diff -- rex | head -1)" ] && { echo "change not applied in $WT"; exit 7; }
RES=""
EV=/tmp/wt/_evid_bak_$$; rm -rf $EV; cp -r /verif/evidence $EV   # runs against a mutant must not leave their evidence behind
for id in "$@"; do
  cd /verif && REX_REPO=$WT ./check $id --tier quick > /tmp/wt/_check_$id.log 2>&1; rc=$?
  RES="$RES $id:rc=$rc"
  echo "== $id rc=$rc"; grep -E "^(VIOLATION|  what|MODEL-DID|HARNESS|INCONC)" /tmp/wt/_check_$id.log | cut -c1-260 | head -6
done
rm -rf /verif/evidence; cp -r $EV /verif/evidence; rm -rf $EV
rm -rf /verif/evidence/replay
echo "RESULT $NAME demo_with=$RC_WITH demo_without=$RC_WITHOUT $RES"
