#!/usr/bin/env python3
"""Regenerate MANIFEST.json from the table below (keeps the manifest valid and consistent)."""
import json, os, sys
HERE = os.path.dirname(os.path.dirname(os.path.abspath(__file__)))

NA = {
 "C05": "liveness of blocking thread/future handshakes (ThreadPoolExecutor, Future.result, RLock) under OS scheduling: all nondeterminism is "
        "thread interleaving inside CPython's blocking primitives, which no symbolic executor here can run; encoding them means model checking "
        "a hand-written model (a different technique family). The data-dependent clause (stale-episode messages dropped, reset state) is decided under C03.",
}

CHECKS = {}

def add(pid, engine, technique, text, note, design_ref):
    CHECKS[pid] = dict(engine=engine, technique=technique, text=text, note=note, design_ref=design_ref)

add("C10", "jaxpr2smt",
    "bounded symbolic execution of the jaxpr of partition_runner.make_update_inputs / TrainableDist.apply_delay over z3 Real/Int terms; z3 decides output == static-delay selection for all timings/payloads/alpha within the window shapes; counterexamples replayed on the real (eager+jit) function",
    "For every extended window satisfying apply_window's representation invariant, every alpha in [0,1] and every step time, the window handed to the step by the real call site equals the static-delay selection (bounded: window<=2(3), ext<=4, scalar and 2-vector payloads). Holds under the stated sender-regularity assumption; without it the check reports known finding K2.",
    "floats as reals; representation invariant of the extended window; sender regularity (<= ext unarrived entries) for the passing obligation; z3 trusted; jaxpr taken as the meaning of the JAX code",
    "DESIGN.md §6 C10")

add("C09", "jaxpr2smt",
    "bounded symbolic execution: jaxprs of the live Graph.run/reset/step/rollout/init compositions interpreted on one fully symbolic GraphState (incl. schedule arrays) over z3 terms; z3 decides leaf-wise equality / clipping laws; counterexamples replayed on the real eager+jit functions",
    "For every GraphState of the enumerated tiny compiled instances (all three supergraph modes) the API compositions run^n;run_until_supervisor, reset;step^n, rollout (carry/full), jit and vmap variants and the overridden step yield identical states; eps/step indices clip for every int; init hands over params/clipped indices. Bounded: n<=2(3) steps, batch 2, instances enumerated. Probe nodes consume and advance their rng (stochastic supervisors), so compositions also compare the keys.",
    "floats as reals (float32 rounding outside), ints unbounded; probe nodes with arithmetic step functions; jaxpr taken as the meaning of jitted code (XLA not examined); instance family enumerated, not quantified",
    "DESIGN.md §6 C09")

add("C06", "jaxpr2smt+pysym",
    "bounded symbolic execution of the jaxpr of Graph.run/reset/step with symbolic run masks; step-function occurrences recorded with their enclosing cond predicates; z3 decides guard <=> run mask and seq/ts/eps handed to the step; replay with a host-side io_callback counter on the real code",
    "Compiled runtime: for every state and every run-mask/seq assignment of the enumerated tiny instances (3 supergraph modes) each non-supervisor slot executes the step function iff its mask is set, once, with the slot's seq/ts; the supervisor's step runs once in run(), iff step!=0 in step(), never in reset() or when overridden. Threaded runtime (engine A on the real push_step/_async_step/async_step/_Synchronizer._async_step/run_supervisor): every fired tick runs the step function exactly once with its seq, state threads from one execution to the next, the supervisor's runs once without and zero times with override.",
    "0<=step<=max_step; effects counted per jaxpr occurrence under lax.cond semantics (un-vmapped); user step = arbitrary deterministic function; instances enumerated",
    "DESIGN.md §6 C06")

add("C13", "jaxpr2smt+pysym",
    "bounded symbolic execution of the jaxpr of Graph.run with and without aux['record'] (settings enumerated) on the same symbolic state, user steps as uninterpreted functions; z3 decides non-interference, row faithfulness and frame condition; replay on the real run with a logging probe node",
    "Threaded runtime (engine A on the real push_phase_shift/push_step/get_record): recorded rows hold exactly what the step was handed/returned (None where a setting is off), at most max_records oldest rows, and any setting/truncation leaves the steps handed, messages sent and timing state identical. Compiled runtime: enabling any combination of record settings changes no non-record leaf; the record row of every executed step holds exactly the seq/times/rng/state/inputs it was handed and the output it returned; all other rows are unchanged (so never-executed rows keep -1). Bounded: one run() from an arbitrary state, enumerated instances x settings. ADDED: threaded runtime -- record eps == eps handed to the step == header eps (graph state and runtime may count episodes differently); messages consumed by recorded steps are recorded whatever max_records is; while stopping only the one pending supervisor step is recorded, with or without output recording; compiled -- recording can be switched on when pruning left nodes out of the supergraph; recorded rng is the key the step was handed (steps advance their keys).",
    "0<=step<=max_steps-1; executed steps of one node carry distinct in-range seqs (schedule adequacy); user step deterministic",
    "DESIGN.md §6 C13")

add("C08", "jaxpr2smt",
    "bounded symbolic execution of the jaxpr of Graph.run from a state whose ring buffers are in invariant form with symbolic schedules (run masks, seqs, window seqs); z3 decides read == emitted(producer, seq) and invariant preservation; plus whole-rollout interpretation of concrete compiled instances (real get_buffer_sizes) with symbolic payloads; replay with identifiable payloads on the real rollout",
    "Part 1: for every adequate schedule and every buffer content satisfying the ring invariant, every window entry handed to every executed step of one partition is the payload emitted at that entry's seq (default for negative seq) and the invariant is re-established (all three supergraph modes, paddings 0..2). Part 2: on an enumerated family of compiled instances sized by the real get_buffer_sizes the same holds for all payload values over the whole horizon. Instance family (part 2): two/three-node graphs, 5:60 rate ratio, heterogeneous multi-episode stacks, user buffer sizes/padding, fan-out producers with differently deep readers, seeded random topologies (4 quick / 47 thorough).",
    "schedule adequacy is an assumption of part 1 (it is what get_buffer_sizes must provide; part 2 checks it only on the enumerated instances); L in -1..40; floats as reals",
    "DESIGN.md §6 C08")

add("C07", "jaxpr2smt+pysym",
    "bounded symbolic execution of the jaxpr of utils.apply_window on a symbolic computation graph; z3 decides each receiver step's window == last window+ext consumed messages (oldest first, default padded, ts_sent = sender ts_end[seq_out]); partition step increment; (engine A) to_connected_graph attachment rule; counterexamples replayed on the real functions",
    "RESTRICTED CLAIM: only the window clause, the step-increment clause and the prune=False attachment rule of C07 are decided (bounded array shapes). That the external supergraph search + to_timings schedule every needed vertex exactly once with producers first is NOT decided (not encodable: networkx/supergraph library code over concrete vertex names).",
    "input graph satisfies the documented Vertex/Edge contract; floats as reals; shapes <= (W=3,N1=6,N2=4,E=6)",
    "DESIGN.md §6 C07")

add("C18", "jaxpr2smt",
    "bounded symbolic execution of the jaxpr of cem_update_mean_stdev over z3 IEEE Float32 terms (NaN/inf exact; argsort via symbolic ranks under XLA's total order) and of gaussian_samples over reals with oracle noise; z3 decides the clauses for all losses/samples/previous states; counterexamples replayed on the real eager+jit function",
    "CEM only: one update from an arbitrary previous state keeps best-so-far monotone, minimal, attained and non-NaN; a NaN candidate is never the best and never displaces a finite candidate from the elites; candidates lie within bounds. Bounded: 4(6) samples, elite portions listed, 1-2 parameter leaves. The literal clause 'no NaN elite while a finite candidate exists' fails when fewer finite candidates than elites exist: known finding K3. evosax strategies are outside the claim.",
    "one-step induction over iterations; previous best-so-far loss not NaN; noise oracle; rex.evo not covered (candidate generation/selection happen inside evosax)",
    "DESIGN.md §6 C18")

add("C19", "jaxpr2smt",
    "bounded symbolic execution of the jaxprs of the live rex.rl wrapper step functions around an inner environment whose results are uninterpreted functions; z3 decides the one-step laws (incl. non-linear real arithmetic for pooled moments); counterexamples replayed on the real wrappers with the oracle returning the model's values",
    "One-step laws for every input/history summary: Environment.step == graph.step with the supervisor output set from the action; AutoReset (stored and fresh init); LogWrapper accounting invariant; Squash/Clip action laws (within bounds, mutual inverses modulo listed tanh/atanh axioms); running observation/return normalisation == exact pooled mean/variance merge. Bounded: batch 2(3), obs dim 1(2). Environment.step is checked with user pre/post-step hooks that write every node's state (incl. the supervisor's) and an output computed from the incoming state. Wrapper stackings (log/auto-reset in both orders, fixed and fresh init, a three-deep stack): the stack's step accepts what its reset returned and keeps the reward/flag/initial-state/log-counter laws. ADDED: float32 obligation (z3 Float32, tanh uninterpreted with the range axiom): unsquash(x) lies inside [low, high] for every float32 x and all finite bounds low < high.",
    "floats as reals; tanh/atanh/sqrt uninterpreted with the axioms named in each obligation; 'statistics of everything seen' claimed as the merge law relative to the wrappers' 1e-4 pseudo-count prior; fresh-init auto-reset passes through modulo the advanced rng",
    "DESIGN.md §6 C19")

add("C20", "jaxpr2smt",
    "bounded symbolic execution of the jaxprs of Policy.get_action and of the training-time evaluation path (NormalizeVec.normalize, ActorCritic.apply, pi.mean/sample, SquashState.unsquash) on the same symbolic weights, scalings and observation; z3 decides equality of the action terms; counterexamples re-checked numerically on the real functions",
    "For every weight/bias/log-std/scaling/observation value the exported policy's action equals the trained actor's deterministic action, and with an rng its sample equals the actor's Gaussian sample for the same key; PPOResult.policy extracts the right leaves. Enumerated: depth 1-2(3), width 1-2(3), 4 activations, squash on/off, normalisation on/off.",
    "floats as reals; transcendental activations uninterpreted (agreement must be structural); normal sampler = uninterpreted function of the key; state-dependent std outside the property",
    "DESIGN.md §6 C20")

add("C17", "jaxpr2smt",
    "bounded symbolic execution of the jaxprs of the live Transform.apply/inv compositions over z3 reals on symbolic parameter trees; z3 decides round trips, end points, strict monotonicity and composition order (closed forms for concrete members, uninterpreted functions for opaque members); counterexamples replayed on the real functions",
    "For all parameter values and bounds with min<max on the enumerated tree shapes (nested, with None leaves): Denormalize inv/apply are mutual inverses, map -1/+1 to min/max and are strictly increasing; Exponential is the exp/log pair; Identity is the identity; Chain applies first-to-last and inverts last-to-first; Shared shares/restores; Extend.apply fills exactly the missing leaves. Extend.inv is not part of the statement and not claimed. ADDED: bound trees whose leaves have different (non-broadcastable) shapes; Extend applied to trees whose None-pattern differs from the one given at init (incl. the default).",
    "floats as reals (the property allows rounding); log(exp x)=x axiom where named; tree shapes enumerated",
    "DESIGN.md §6 C17")

add("C15", "jaxpr2smt",
    "bounded symbolic execution of the jaxprs of StaticDist.sample/reset/quantile and TrainableDist.sample/mean/quantile over z3 terms with the wrapped distribution as an oracle and PRNG split as an uninterpreted function; z3 decides non-negativity, rng threading, replay and the Deterministic/Normal/Trainable quantile laws PLUS (engine A, proxy execution): the real GMMEstimator._rescale/get_dist/normalize_weights on symbolic fitted parameters, data mean and data std with jax.numpy replaced by an object-array stand-in (exp/log uninterpreted, exp>0).",
    "RESTRICTED CLAIM: every StaticDist sample is >= 0 for arbitrary underlying samples, the returned distribution carries split(rng)[0] and samples depend on split(rng)[1] only, reset replays; TrainableDist sample=mean=quantile in [min,max]; Deterministic quantile = value; Normal quantile = loc+scale*ndtri(q), monotone given ndtri increasing. NOT claimed: mixture quantiles, agreement of quantiles with the CDF, the GMM delay estimator (not encodable). ADDED: the estimator's export path: locations loc*std+mean, log-scales shifted by log(std) and positive, weights = renormalised weights of the heaviest components (positive, sum 1; a lightest prefix of weight < 1-percentile dropped), constant data -> Deterministic(mean); K<=2(3). The fitting loop itself stays outside.",
    "underlying distribution = arbitrary function of its seed; ndtri uninterpreted (strictly increasing axiom); sample shapes 1 and 3",
    "DESIGN.md §6 C15")

add("C03", "pysym+jaxpr2smt",
    "bounded symbolic execution of the unmodified connection/node handlers of rex.asynchronous on z3-backed proxy numbers (1 us grid normal form, solver-checked branch feasibility, DFS over decision prefixes); per path the one-step inductive obligations are discharged by z3; InputState.push via the jaxpr interpreter; counterexamples replayed on the unpatched handlers with python floats",
    "From every state satisfying the stated representation invariant (queue lengths <= 3(4), all blocking x skip x jitter policies, 6(12) rate pairs) each handler re-establishes the invariant and: receive times are FIFO and causal up to the 1 us rounding grid; messages are paired with their delays in order; non-blocking selection takes exactly the arrived prefix (LATEST/BUFFER, skip ties) and never before a strictly later arrival is known; blocking steps take adjacent disjoint runs of sender ticks; ts_max/selection pop exactly what was announced, seq_in = connection tick; ticks gap-free. Exact causality fails by <= 0.5 us: known finding K1. Step clauses on the real tick chain: gap-free sequence numbers, start_k >= end_{k-1} under both scheduling modes incl. overruns, announced send time = end of the producing step.",
    "simulated clock only; INV as listed in the evidence; floats as reals with round-half-up on the 1 us grid; phases on the grid; composition of the one-step lemmas into whole-episode statements is an induction argument (DESIGN.md), not a solver result",
    "DESIGN.md §6 C03")

add("C04", "pysym",
    "bounded symbolic execution of the unmodified push_scheduled_ts/push_phase_shift/push_step of _AsyncNodeWrapper over consecutive ticks on z3-backed proxies (symbolic phase, delays, blocking arrivals); the timing law is stated independently in max-form as z3 terms and proved equal on every feasible path; counterexamples replayed with python floats on the unpatched handlers",
    "For ticks 0..2(3), rates {10,13}({3,10,13,50}), 0-2 blocking inputs, both scheduling modes and advance settings, for every phase, every computation delay (incl. overruns) and every blocking arrival time: scheduled time = k/rate+phase on the 1us grid; start_k = max(blocking arrivals, end of previous step[, scheduled_k + drift_k]); end_k = start_k + delay_k is what consumers are told; FREQUENCY drift accumulates overruns and keeps consecutive starts >= 1/rate - 1us apart; PHASE returns to the grid; never before the scheduled time unless advance with only blocking inputs; no overlap. The initial state (drift, 'end of previous step', queues, first task) is produced by the real _reset/_start.",
    "simulated clock; floats as reals; round-half-up on the 1us grid; phase on the grid; the delivery clause (recv = round6(max(end+d, prev))) is C03's",
    "DESIGN.md §6 C04")

add("C02", "pysym",
    "bounded symbolic execution of the unmodified handlers of rex.asynchronous on z3-backed proxies: every rule is executed on a state s and on s' = s plus an arbitrary FIFO-later suffix on an input queue (the only thing a thread schedule can change) and z3 decides that pops, writes and pokes agree (R1-R3); time.time/sleep replaced by symbolic stubs to decide clock independence; run_supervisor with/without override compared; counterexamples replayed on the unpatched handlers",
    "Lemma-level claim: for queue prefixes <= 2(3) items, all non-blocking policies, blocking/selection/zip/ts_max rules: a rule that fires keeps firing with identical effects when more input has arrived, and a rule that does not fire changes nothing; no recorded simulated time depends on the wall clock or the real-time factor (2 ticks, rtf in {0,1,10}); run() and reset()/step() hand the runtime the same supervisor result. Thread interleavings themselves are NOT enumerated: global determinism follows from these lemmas plus C03/C04 by a paper argument stated in DESIGN.md.",
    "GIL atomicity of deque operations; executors run tasks FIFO; single-producer/single-consumer queue ownership (AST table in the evidence, informational); suffixes honour the producers' contracts; wall-clock mode and the racy snapshot of other nodes' step states are outside",
    "DESIGN.md §6 C02")

add("C01", "pysym+jaxpr2smt",
    "two-sided bounded symbolic differential: the unmodified asynchronous handlers are executed on z3-backed proxies along every feasible path (engine A) to produce per-step windows and records on symbolic timings; the real EpisodeRecord.to_graph and the jaxpr of the real utils.apply_window are evaluated on those records (engine B); z3 decides window equality for every executed receiver step on every path; counterexamples replayed with floats on both real sides",
    "LEMMA-CHAIN CLAIM. Decided here: for one connection, <= 3 messages x <= 2(3) receiver steps, windows 1-2(3), all LATEST/BUFFER x skip x blocking policies and 2(4) rate pairs, for every phase/delay on a 1 ns grid, each executed receiver step is handed asynchronously exactly the window (seq, ts_sent, ts_recv, oldest first) that apply_window(record.to_graph()) yields, and carries seq k / the recorded start time. The rest of the end-to-end statement is covered by other checks' lemmas (payload identity C08, compiled step-state threading C09/C13, conversions C14, supergraph modes through C07/C08); their composition is a paper argument, not a solver result. ADDED: scheduling (PHASE) and advance variants of both nodes; the wrappers' initial state comes from the real _reset/_start; compiled threading lemma incl. the key each step returns (split) being the key the next step is handed.",
    "canonical executor order (justified by C02); simulated clock; times/delays quantified over the 1 ns grid; InputState.push by its list semantics (decided in C03); node.step an opaque deterministic function",
    "DESIGN.md §6 C01")

add("C16", "pysym",
    "bounded symbolic execution of the unmodified BaseNode/Connection phase, phase_output, set_delay, info, from_info, connect_from_info on z3-backed proxies (expected delays as solver symbols, delay distributions as pure-python stand-ins); DAG shapes and skip labellings enumerated; z3 decides phase == longest non-skipped path against an explicit path-enumeration oracle; counterexamples replayed with floats",
    "For every DAG on <= 3(4) nodes, (sampled) skip labellings and all expected delays in [0,1]: node.phase is the longest expected-delay path over non-skipped connections (0 for sources), phase_output/connection.phase follow; set_delay(delay=..) and set_delay(delay_dist=..) on nodes and connections take effect in phases, runtime objects and infos; from_info+connect_from_info rebuild equal infos/phases/connections; un-skipped cycles raise the algebraic-loop error; default expected delay = 99th percentile, negative rejected. ADDED: longer set_delay histories; info round trips with custom input names; threaded runtime: the next episode's reset uses the node's/connection's current phase (and -- known finding K5 -- not its current delay distribution).",
    "delay distributions are stand-ins exposing quantile/mean; one set_delay per node/connection after construction; expected delays on the 1us grid",
    "DESIGN.md §6 C16")

add("C14", "pysym",
    "bounded symbolic execution of the unmodified Graph.stack/__getitem__/filter, EpisodeRecord.to_graph/filter, ExperimentRecord.to_graph/_padded_stack and utils.to_networkx_graph on numpy object arrays of solver symbols (lengths, subsets, flags enumerated; vertex/edge existence patterns explored by solver-checked forking); z3 decides the cell-wise and existence obligations; counterexamples replayed with concrete numbers",
    "For <= 3(4) ragged episodes of length <= 3(4) and all cell values: stacking pads with -1 and keeps every original cell, indexing a stack returns the original episode, record->graph conversion is field-for-field, to_networkx_graph creates a vertex iff seq != -1 and an edge iff both ends are valid (never for padded entries), and Graph/EpisodeRecord.filter keep precisely the selected nodes and the connections among them for every subset of 3 nodes and both flags. ADDED: filters on nodes whose connections use custom input names; filters leave their source unchanged; to_networkx_graph without the optional nodes argument; records with custom input names (edges keyed by producer).",
    "most obligations are structural (cell identity): the solver generalises over cell values and enumerates existence patterns; graph contract for to_networkx_graph (gap-free seq, padding at the tail, edges name existing vertices) assumed",
    "DESIGN.md §6 C14")

add("C12", "jaxpr2smt",
    "bounded symbolic execution of the jaxpr of the real `episode` closure of rex.artificial._generate_graphs (captured at its jax.vmap call site) over z3 terms with all delay distributions as oracles (samples = uninterpreted functions of the PRNG key, real clip-at-zero kept); scans unrolled, while loop unrolled with an unwinding assertion; z3 decides the vertex/edge laws; counterexamples re-checked through the public generate_graphs",
    "For 2 nodes with <= 5 vertices each, rate pairs (2,3),(3,2)((2,2),(4,3)), skip on/off and arbitrary computation/communication delays: vertices start at the phase, are spaced >= one period, last one sampled delay >= 0, never overlap, seq = -1 exactly beyond the horizon; messages are received one sampled delay >= 0 after the sender ended and (for in-order arrivals) consumed by the first receiver step starting at/after arrival (strictly after for skip), -1 beyond the horizon; augmentation returns existing vertices unchanged and adds exactly the missing keys. With reordered arrivals the literal first-eligible-step clause fails: known finding K4. Augmenting: the per-episode horizon is a solver variable (h = max ts_end <= the batch's longest), the pre-existing node is an arbitrary well-formed (padded) vertex set, as sender or as receiver of the generated node; existing vertices unchanged, exactly the missing node/connection added.",
    "floats as reals, +inf as 1e12; horizon concrete; acyclicity argued from forward-in-time edges (not encoded); mixture/trainable distributions enter only as 'some delay sample'",
    "DESIGN.md §6 C12")

add("C11", "jaxpr2smt",
    "bounded symbolic execution of the jaxpr of TrainableDist.apply_delay (linear / linear_real_only, jnp.interp inlined) and of jax.grad through it over z3 reals; the piecewise-linear interpolant is stated independently as an If-chain; z3 (non-linear real arithmetic) decides equality, bracketing, zero-order-hold coincidence and the gradient law; counterexamples re-checked numerically on the real function",
    "For windows 1-2 with extension 2(3), scalar payloads, every alpha in [0,1], step time and message timing satisfying the extended-window invariant: each entry equals the piecewise-linear signal through (arrival, value) at the shifted query time, the newest entry equals the sender's signal at ts_start - delay and lies between its neighbouring messages, coincides with the zero-order-hold result at breakpoints, and its derivative w.r.t. alpha is -(max-min) times the segment slope strictly inside a segment; dtypes/shape preserved. ADDED: payload shapes (vectors/matrices up to 2x2, windows 1-3(4)) are reduced to the scalar case by a differential obligation on the real function (whole-window result == per-component results; this exposed defect F3, repaired); irregular senders (more than ext entries unarrived): the newest entry is still the signal at ts_start - delay.",
    "floats as reals; send times >= 1us apart; sender regularity (<= ext unarrived entries); linear: at most one default entry; linear_real_only: no default entries (its -1e9 sentinel relies on float absorption); Lipschitz continuity not attempted",
    "DESIGN.md §6 C11")

def main():
    checks = []
    for pid in sorted(CHECKS):
        c = CHECKS[pid]
        checks.append({
            "property_id": pid,
            "quick_cmd": f"./check {pid} --tier quick",
            "thorough_cmd": f"./check {pid} --tier thorough",
            "evidence_file": f"evidence/{pid}.json",
            "replay_cmd_template": f"./check {pid} --replay {{path}}",
            "engine": c["engine"],
            "level_claimed": {"category": "model_checking", "text": c["text"], "design_ref": c["design_ref"]},
            "level_note": c["note"],
            "technique": c["technique"],
        })
    props = [json.loads(l)["id"] for l in open(os.path.join(HERE, "properties.jsonl"))]
    na = []
    for pid in props:
        if pid in CHECKS:
            continue
        na.append({"property_id": pid, "reason": NA.get(pid, "check not built yet (in progress); no claim is made for this property at this commit")})
    man = {
        "version": 1,
        "setup_cmd": "./setup.sh",
        "hooks": {
            "guard": "REX_VERIF",
            "enable": "no source hooks are needed: engine A patches module globals from outside the repo, engine B traces jaxprs of the live functions; checks export REX_VERIF=1 only for symmetry",
            "baseline_off_cmd": "cd /repo && /venv/bin/python -m pytest -ra -q -p no:cacheprovider --timeout=900 --continue-on-collection-errors",
            "source_commits": [],
            "add_only": True,
        },
        "engines": [
            {"name": "jaxpr2smt", "path": "vlib/jx.py", "serves_properties": sorted(p for p, c in CHECKS.items() if "jaxpr2smt" in c["engine"]),
             "kind_free_text": "interpreter of jax.make_jaxpr output over numpy object arrays of z3 terms (Real/Int/Bool, opaque PRNG keys, UFs for transcendentals); z3 5.1 decides obligations"},
            {"name": "pysym", "path": "vlib/pysym.py", "serves_properties": sorted(p for p, c in CHECKS.items() if "pysym" in c["engine"]),
             "kind_free_text": "proxy-based symbolic execution of the unmodified Python handlers of rex (z3-backed numbers, solver-checked branch feasibility, DFS over decision prefixes)"},
        ],
        "checks": checks,
        "notes": "All results are bounded (see each evidence file: bounds, assumptions, stubs). Exit codes: 0 held, 1 violation (replayed on the real code), 2 harness error/inconclusive, 3 solver model did not replay.",
        "not_applicable": na,
    }
    json.dump(man, open(os.path.join(HERE, "MANIFEST.json"), "w"), indent=1)
    print(f"{len(checks)} checks, {len(na)} not claimed")

if __name__ == "__main__":
    main()
