#!/usr/bin/env python3
"""tools/seed_meta.py <name> <property> <needs> <source> <results...>  -- write /verif/seeded/<name>/meta.json"""
import json, sys, os
name, prop, needs, source = sys.argv[1:5]
results = sys.argv[5:]
d = dict(breaks_property=prop, what_it_needs_to_manifest=needs, source=source,
         confirmed=["demo exits 1 with the patch and 0 without it (run in a scratch worktree)", "patch applies to /repo HEAD; existing unit tests pass with it (sub-agent ran tests/unit; see its report)"] + ([open(f"/tmp/wt/_tests_{os.environ['SEED_WT']}.txt").read().strip() + " (tests/unit re-run by us in the scratch worktree with the patch applied, the three always-failing tests deselected)"] if os.environ.get("SEED_WT") and os.path.exists(f"/tmp/wt/_tests_{os.environ['SEED_WT']}.txt") else []),
         checks_run=[r for r in results], caught_by=[r.split(":")[0] for r in results if r.endswith("rc=1")],
         missed_by=[r.split(":")[0] for r in results if r.endswith("rc=0")])
json.dump(d, open(f"/verif/seeded/{name}/meta.json", "w"), indent=1)
print(d["caught_by"], d["missed_by"])
