#!/bin/bash
# tools/seed_tests.sh <worktree-id>...  -- run the repository's own unit tests inside each scratch worktree with its change applied
# (same pytest invocation as the pinned baseline, tests/unit only); result line in /tmp/wt/_tests_<id>.txt
# The pinned threaded runtime occasionally hangs in async fixtures under load (observation O3): a hung attempt is cut after 6 minutes and retried.
for id in "$@"; do
  WT=/tmp/wt/$id
  cd $WT || continue
  if [ -z "$(git diff -- rex | head -1)" ]; then [ -s patch.diff ] && git apply patch.diff; fi
  if [ -z "$(git diff -- rex | head -1)" ]; then echo "$id NO-CHANGE-APPLIED" > /tmp/wt/_tests_$id.txt; continue; fi
  for attempt in 1 2 3; do
    JAX_PLATFORMS=cpu PYTHONPATH=$WT timeout 360 /venv/bin/python -m pytest -q -p no:cacheprovider --timeout=300 tests/unit -x --deselect tests/unit/test_jax_utils.py::test_same_structure --deselect tests/unit/test_transforms.py::test_chain --deselect tests/unit/test_transforms.py::test_extend > /tmp/wt/_tests_$id.log 2>&1
    rc=$?
    echo "$id rc=$rc attempt=$attempt $(grep -E "passed|failed" /tmp/wt/_tests_$id.log | tail -1)" > /tmp/wt/_tests_$id.txt
    [ $rc -eq 0 ] && break
  done
done
