#!/bin/bash
# tools/seed_tests.sh <worktree-id>...  -- run the repository's own unit tests inside each scratch worktree with its change applied
# (same pytest invocation as the pinned baseline, tests/unit only); result line in /tmp/wt/_tests_<id>.txt
for id in "$@"; do
  WT=/tmp/wt/$id
  cd $WT || continue
  if [ -z "$(git diff -- rex | head -1)" ]; then [ -s patch.diff ] && git apply patch.diff; fi
  if [ -z "$(git diff -- rex | head -1)" ]; then echo "$id NO-CHANGE-APPLIED" > /tmp/wt/_tests_$id.txt; continue; fi
  JAX_PLATFORMS=cpu PYTHONPATH=$WT timeout 1500 /venv/bin/python -m pytest -q -p no:cacheprovider --timeout=900 tests/unit -x --deselect tests/unit/test_jax_utils.py::test_same_structure --deselect tests/unit/test_transforms.py::test_chain --deselect tests/unit/test_transforms.py::test_extend > /tmp/wt/_tests_$id.log 2>&1
  echo "$id rc=$? $(grep -E "passed|failed" /tmp/wt/_tests_$id.log | tail -1)" > /tmp/wt/_tests_$id.txt
done
