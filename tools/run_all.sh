#!/bin/bash
# run every registered check (quick by default) on /repo's current tree; prints one status line per check
cd "$(dirname "$0")/.."
TIER=${1:-quick}
shift
IDS="$@"
[ -z "$IDS" ] && IDS=$(python3 -c "import json; print(' '.join(c['property_id'] for c in json.load(open('MANIFEST.json'))['checks']))")
rm -rf evidence/replay
for id in $IDS; do
  s=$(date +%s)
  ./check $id --tier $TIER > /tmp/verif_run_$id.log 2>&1; rc=$?
  e=$(date +%s)
  echo "$id rc=$rc $((e-s))s $(grep -E '^\[' /tmp/verif_run_$id.log | tail -1)"
  grep -E "^(VIOLATION|KNOWN-FINDING|HARNESS-ERROR|INCONCLUSIVE|MODEL-DID-NOT)" /tmp/verif_run_$id.log | cut -c1-200
done
